"""Zilog Z8000 (Z8002, non-segmented) reference encoder.

Source of truth: Zilog "Z8000 CPU Technical Manual" (January 1983), chapter 5 (addressing modes) and
chapter 6 (instruction set: the instruction format drawings of every instruction page, the
condition-code table, the control-register and flag codes).  Written from Zilog's definition, not
from codez8000.c.

  first word   mm oooooo ssss dddd      mm = 00 IR (ssss != 0) / IM (ssss = 0)
                                             01 X  (ssss != 0) / DA (ssss = 0)   + address word
                                             10 R
                                             11 compact formats (LDB Rb,#n  CALR  JR  DJNZ)
  BA  Rn(#disp)   opcodes 30..37 with ssss != 0 and a displacement word; ssss = 0 is RA (relative
                  to the address of the following instruction)
  BX  Rn(Rx)      opcodes 70..77, second word 0000 xxxx 0000 0000
  byte registers RH0..RH7 = 0..7, RL0..RL7 = 8..15; RRn / RQn are encoded with the number n
  byte immediates occupy both halves of their word; long immediates most significant word first
  CALR and DJNZ *subtract* twice their displacement from the updated PC, JR adds it
Memory is big endian (most significant byte of a word at the lower, even address).

Every instruction is written with Zilog's explicit size mnemonic (ADDB / ADD / ADDL ...); AS's
inference of the size from the register name is not used.

R0 as address register (@R0), index (addr(R0)) or base (R0(#d), R0(Rx)) cannot be encoded - the field value
0 selects the IM, DA or RA format - and must be rejected.

Excluded by construction (rule 2, ambiguous or not settled by the manufacturer's text):
  * segmented mode (Z8001/Z8003), the EPU templates, AMD syntax
  * LD Rd,#0..15: Zilog defines LD (2 words) and LDK (1 word) for it and AS documents in its test that
    it picks LDK; LDK itself is generated under its own mnemonic
  * LDB Rbd,#data is expected in the one-word format 1100 dddd data: the manual's footnote to LD says
    that the assembler always uses the short format for it
  * R0 as index of the BX mode
  * negative addresses; addresses / port numbers beyond 16 bits must be rejected
  * 16-bit relative operands (LDR, LDAR) reach every address modulo 64K: nothing to reject
  * odd branch targets, odd addresses are generated for byte operands only
  * for byte shifts to the right the high byte of the count word is not compared
  * R1 in the translate instructions (RH1 is their scratch register; the manual forbids it)
  * the optional forms 'CPI ... without cc' and 'EX mem,reg' (AS extensions), the alternate condition /
    flag names of doc/processor-specific-hints.md
"""
from .common import Form, Int, Enum, Rel, Isa, sx


def be(*ws):
    return b"".join(bytes([(w >> 8) & 0xff, w & 0xff]) for w in ws)


RBN = ["RH%d" % i for i in range(8)] + ["RL%d" % i for i in range(8)]
RWN = ["R%d" % i for i in range(16)]
RLN = ["RR%d" % i for i in range(0, 16, 2)]
RQN = ["RQ%d" % i for i in range(0, 16, 4)]

# condition codes (chapter 6.4, table of condition codes); "" (blank) = always = 1000
CC = [("F", 0), ("LT", 1), ("LE", 2), ("ULE", 3), ("OV", 4), ("PE", 4), ("MI", 5), ("EQ", 6), ("Z", 6),
      ("C", 7), ("ULT", 7), ("GE", 9), ("GT", 10), ("UGT", 11), ("NOV", 12), ("PO", 12), ("PL", 13),
      ("NE", 14), ("NZ", 14), ("NC", 15), ("UGE", 15)]
ALWAYS = 8


# ---------------------------------------------------------------- operand kinds

class Int32(Int):
    """32-bit immediate: a value that becomes valid when read modulo 2^32 is excluded instead of being
    expected to be rejected"""

    def classify(self, v, pc=0, vals=None):
        c = Int.classify(self, v, pc, vals)
        if c == "rej":
            for w in (sx(v, 32), v & 0xffffffff):
                if w != v and Int.classify(self, w, pc, vals) != "rej":   # ok, or a hole taking another form
                    return "excl"
        return c


class Rel16(Rel):
    """16-bit displacement from the address of the next instruction: the effective address is taken
    modulo 2^16 (non-segmented PC), every distance is encodable, none rejectable"""

    def __init__(self, pcoff, scale=1):
        Rel.__init__(self, -32768 // scale, 32767 // scale, pcoff, scale, band=8)

    def target(self, v, pc):
        return (pc + self.pcoff + v * self.scale) & 0xffff

    def from_target(self, t, pc):
        dlt = sx(t - pc - self.pcoff, 16)
        return None if dlt % self.scale else dlt // self.scale

    def classify(self, v, pc=0, vals=None):
        return "ok" if self.lo <= v <= self.hi else "excl"

    def boundary_ok(self):
        return [0, 1, -1, -self.pcoff // self.scale, self.lo, self.lo + 1, self.hi, self.hi - 1, 127, 128,
                -128, -129, 0x1000, -0x1000, 0x3000, -0x3000]

    def boundary_rej(self):
        return []

    def opclass(self, v):
        for nm, ref in (("lo", self.lo), ("hi", self.hi)):
            if abs(v - ref) <= 1:
                return "rel16@%s%+d" % (nm, v - ref)
        return None

    def draw_ok(self, d):
        if d.int(0, 9) < 4:
            return d.choice(self.boundary_ok())
        return d.int(self.lo, self.hi)

    def draw_rej(self, d):
        return None


class AddrReg(Enum):
    """word register in an address-register / index / base field: R0 cannot be encoded there (field value 0
    selects the IM, DA or RA format) and must be rejected"""

    def __init__(self, names=None):
        Enum.__init__(self, names or RWN)
        self.bad = [i for i, n in enumerate(self.names) if n == "R0"]

    def classify(self, v, pc=0, vals=None):
        if v in self.bad:
            return "rej"
        return Enum.classify(self, v, pc, vals)

    def boundary_ok(self):
        return [i for i in range(len(self.names)) if i not in self.bad]

    def boundary_rej(self):
        return list(self.bad)

    def opclass(self, v):
        return "illegal-" + self.names[v] if v in self.bad else None

    def draw_ok(self, d):
        return d.choice(self.boundary_ok())

    def draw_rej(self, d):
        return d.choice(self.bad)


# ---------------------------------------------------------------- operand parts

class Part:
    """one operand of the source text: template with {} placeholders, operand kinds, decoder of its values"""

    def __init__(self, label, tmpl, ops, dec):
        self.label, self.tmpl, self.ops, self.dec = label, tmpl, ops, dec


def rb():
    return Part("Rb", "{}", [Enum(RBN)], lambda v: v[0])


def rw():
    return Part("R", "{}", [Enum(RWN)], lambda v: v[0])


def rl():
    return Part("RR", "{}", [Enum(RLN)], lambda v: 2 * v[0])


def rq():
    return Part("RQ", "{}", [Enum(RQN)], lambda v: 4 * v[0])


def reg(size):
    return {"B": rb, "W": rw, "L": rl, "Q": rq}[size]()


def ir():
    return Part("IR", "@{}", [AddrReg()], lambda v: v[0])


def ir_no1():
    return Part("IR", "@{}", [AddrReg(RWN[:1] + RWN[2:])], lambda v: v[0] + 1 if v[0] else 0)


def rw_no1():
    return Part("R", "{}", [Enum(RWN[:1] + RWN[2:])], lambda v: v[0] + 1 if v[0] else 0)


def da(size="B"):
    # word and long operands at even addresses only
    if size == "B":
        return Part("DA", "{}", [Int(0, 65535, rej_lo=False)], lambda v: v[0])
    return Part("DA", "{}", [Int(0, 65534, rej_lo=False, step=2)], lambda v: v[0])


def xm(size="B"):
    return Part("X", "{}({})", [Int(0, 65535, rej_lo=False), AddrReg()], lambda v: (v[0], v[1]))


def ba():
    return Part("BA", "{}(#{})", [AddrReg(), Int(-32768, 65535)], lambda v: (v[0], v[1] & 0xffff))


def bx():
    # R0 as index (second word) is not generated: the manual excludes R0 from the mode, the field could hold it
    return Part("BX", "{}({})", [AddrReg(), Enum(RWN[1:])], lambda v: (v[0], v[1] + 1))


def imm(size, **kw):
    if size == "B":
        return Part("IM", "#{}", [Int(-128, 255, **kw)], lambda v: v[0])
    if size == "W":
        return Part("IM", "#{}", [Int(-32768, 65535, **kw)], lambda v: v[0])
    return Part("IM", "#{}", [Int32(-(1 << 31), (1 << 32) - 1, **kw)], lambda v: v[0])


def num(lo, hi, label="n", **kw):
    return Part(label, "#{}", [Int(lo, hi, **kw)], lambda v: v[0])


def cc():
    return Part("cc", "{}", [Enum([n for n, _ in CC])], lambda v: CC[v[0]][1])


def names(label, table):
    """operand out of a list of (text, code)"""
    return Part(label, "{}", [Enum([n for n, _ in table])], lambda v: table[v[0]][1])


def port():
    return Part("port", "{}", [Int(0, 65535, rej_lo=False)], lambda v: v[0])


def immwords(v, size):
    if size == "B":
        return [(v & 0xff) * 0x101]
    if size == "W":
        return [v & 0xffff]
    return [(v >> 16) & 0xffff, v & 0xffff]


def src_mode(mode, size):
    """-> (part, mm, field(value), extension words(value))"""
    if mode == "R":
        return reg(size), 2, (lambda s: s), (lambda s: [])
    if mode == "IR":
        return ir(), 0, (lambda s: s), (lambda s: [])
    if mode == "DA":
        return da(size), 1, (lambda s: 0), (lambda s: [s])
    if mode == "X":
        return xm(size), 1, (lambda s: s[1]), (lambda s: [s[0]])
    if mode == "IM":
        return imm(size), 0, (lambda s: 0), (lambda s: immwords(s, size))
    raise ValueError(mode)


SUF = {"B": "B", "W": "", "L": "L"}


def build():
    F = []

    def add(name, mnem, parts, encf, dontcare=None):
        """encf(pc, *decoded part values) -> list of words"""
        tm, k, ops, slices = [], 0, [], []
        for p in parts:
            t = ""
            pieces = p.tmpl.split("{}")
            for i, piece in enumerate(pieces):
                t += piece
                if i < len(pieces) - 1:
                    t += "{%d}" % k
                    k += 1
            tm.append(t)
            slices.append((len(ops), len(ops) + len(p.ops)))
            ops += p.ops
        fmt = mnem + (" " + ",".join(tm) if tm else "")
        decs = [p.dec for p in parts]

        def enc(pc, v):
            return be(*encf(pc, *[d(v[a:b]) for d, (a, b) in zip(decs, slices)]))
        rel = None
        for i, o in enumerate(ops):
            if o.kind == "rel":
                rel = i
        F.append(Form(name, fmt, ops, enc, None, None, dontcare))
        return F[-1], rel

    def w1(mm, opc, hi, lo):
        return mm << 14 | opc << 8 | hi << 4 | lo

    # ---- two operands: register destination, general source ------------------------------------
    TWO = [("ADD", {"B": 0x00, "W": 0x01, "L": 0x16}), ("SUB", {"B": 0x02, "W": 0x03, "L": 0x12}),
           ("OR", {"B": 0x04, "W": 0x05}), ("AND", {"B": 0x06, "W": 0x07}), ("XOR", {"B": 0x08, "W": 0x09}),
           ("CP", {"B": 0x0A, "W": 0x0B, "L": 0x10}), ("LD", {"B": 0x20, "W": 0x21, "L": 0x14})]
    for m, sizes in TWO:
        for size, opc in sizes.items():
            for mode in ("R", "IM", "IR", "DA", "X"):
                sp, mm, fld, ext = src_mode(mode, size)
                if m == "LD" and mode == "IM":
                    if size == "B":
                        # one-word format 1100 dddd data
                        add("LDB Rb,IM", "LDB", [rb(), imm("B")], lambda pc, d, s: [0xC000 | d << 8 | (s & 0xff)])
                        continue
                    if size == "W":
                        sp = imm("W", holes=range(0, 16))       # 0..15: LDK is the second encoding
                add("%s%s %s,%s" % (m, SUF[size], reg(size).label, mode), m + SUF[size], [reg(size), sp],
                    (lambda opc, mm, fld, ext: lambda pc, d, s: [w1(mm, opc, fld(s), d)] + ext(s))(opc, mm, fld, ext))

    # MULT / DIV: destination twice as wide as the source
    for m, sizes in (("MULT", {"W": 0x19, "L": 0x18}), ("DIV", {"W": 0x1B, "L": 0x1A})):
        for size, opc in sizes.items():
            dsize = "L" if size == "W" else "Q"
            for mode in ("R", "IM", "IR", "DA", "X"):
                sp, mm, fld, ext = src_mode(mode, size)
                add("%s%s %s,%s" % (m, SUF[size], reg(dsize).label, mode), m + SUF[size], [reg(dsize), sp],
                    (lambda opc, mm, fld, ext: lambda pc, d, s: [w1(mm, opc, fld(s), d)] + ext(s))(opc, mm, fld, ext))

    # EX: no immediate
    for size, opc in (("B", 0x2C), ("W", 0x2D)):
        for mode in ("R", "IR", "DA", "X"):
            sp, mm, fld, ext = src_mode(mode, size)
            add("EX%s %s,%s" % (SUF[size], reg(size).label, mode), "EX" + SUF[size], [reg(size), sp],
                (lambda opc, mm, fld, ext: lambda pc, d, s: [w1(mm, opc, fld(s), d)] + ext(s))(opc, mm, fld, ext))

    # ADC / SBC: registers only
    for m, opc in (("ADCB", 0xB4), ("ADC", 0xB5), ("SBCB", 0xB6), ("SBC", 0xB7)):
        size = "B" if m.endswith("B") else "W"
        add(m + " R,R", m, [reg(size), reg(size)], (lambda opc: lambda pc, d, s: [opc << 8 | s << 4 | d])(opc))

    # ---- LD memory <- register (store) ----------------------------------------------------------
    for size, opc in (("B", 0x2E), ("W", 0x2F), ("L", 0x1D)):
        for mode in ("IR", "DA", "X"):
            dp, mm, fld, ext = src_mode(mode, size)
            add("LD%s %s,%s" % (SUF[size], mode, reg(size).label), "LD" + SUF[size], [dp, reg(size)],
                (lambda opc, mm, fld, ext: lambda pc, d, s: [w1(mm, opc, fld(d), s)] + ext(d))(opc, mm, fld, ext))

    # ---- LD / LDA / LDR with BA, BX, RA ---------------------------------------------------------
    for size, lo_, st in (("B", 0x30, 0x32), ("W", 0x31, 0x33), ("L", 0x35, 0x37)):
        m = "LD" + SUF[size]
        add(m + " R,BA", m, [reg(size), ba()], (lambda o: lambda pc, d, s: [w1(0, o, s[0], d), s[1]])(lo_))
        add(m + " BA,R", m, [ba(), reg(size)], (lambda o: lambda pc, d, s: [w1(0, o, d[0], s), d[1]])(st))
        add(m + " R,BX", m, [reg(size), bx()],
            (lambda o: lambda pc, d, s: [w1(1, o, s[0], d), s[1] << 8])(lo_))
        add(m + " BX,R", m, [bx(), reg(size)],
            (lambda o: lambda pc, d, s: [w1(1, o, d[0], s), d[1] << 8])(st))
        sc = 1 if size == "B" else 2
        r = "LDR" + SUF[size]

        def relpart(sc=sc):
            return Part("RA", "{}", [Rel16(4, sc)], lambda v, sc=sc: v[0] * sc)
        f, ri = add(r + " R,RA", r, [reg(size), relpart()],
                    (lambda o: lambda pc, d, s: [w1(0, o, 0, d), s & 0xffff])(lo_))
        f.rel = (ri, (lambda sc: lambda b: sx(b[2] << 8 | b[3], 16) // sc)(sc))
        f, ri = add(r + " RA,R", r, [relpart(), reg(size)],
                    (lambda o: lambda pc, d, s: [w1(0, o, 0, s), d & 0xffff])(st))
        f.rel = (ri, (lambda sc: lambda b: sx(b[2] << 8 | b[3], 16) // sc)(sc))

    add("LDA R,DA", "LDA", [rw(), da()], lambda pc, d, s: [0x7600 | d, s])
    add("LDA R,X", "LDA", [rw(), xm()], lambda pc, d, s: [0x7600 | s[1] << 4 | d, s[0]])
    add("LDA R,BA", "LDA", [rw(), ba()], lambda pc, d, s: [0x3400 | s[0] << 4 | d, s[1]])
    add("LDA R,BX", "LDA", [rw(), bx()], lambda pc, d, s: [0x7400 | s[0] << 4 | d, s[1] << 8])
    f, ri = add("LDAR R,RA", "LDAR", [rw(), Part("RA", "{}", [Rel16(4, 1)], lambda v: v[0])],
                lambda pc, d, s: [0x3400 | d, s & 0xffff])
    f.rel = (ri, lambda b: sx(b[2] << 8 | b[3], 16))

    # ---- single operand group 0C/0D: COM CP# NEG TEST LD# TSET CLR ------------------------------
    for m, sub in (("COM", 0), ("NEG", 2), ("TEST", 4), ("TSET", 6), ("CLR", 8)):
        for size in ("B", "W"):
            for mode in ("R", "IR", "DA", "X"):
                dp, mm, fld, ext = src_mode(mode, size)
                add("%s%s %s" % (m, SUF[size], mode), m + SUF[size], [dp],
                    (lambda opc, mm, fld, ext, sub: lambda pc, d: [w1(mm, opc, fld(d), sub)] + ext(d))
                    (0x0C if size == "B" else 0x0D, mm, fld, ext, sub))
    for mode in ("R", "IR", "DA", "X"):
        dp, mm, fld, ext = src_mode(mode, "L")
        add("TESTL " + mode, "TESTL", [dp],
            (lambda mm, fld, ext: lambda pc, d: [w1(mm, 0x1C, fld(d), 8)] + ext(d))(mm, fld, ext))
    for m, sub in (("CP", 1), ("LD", 5)):
        for size in ("B", "W"):
            for mode in ("IR", "DA", "X"):
                dp, mm, fld, ext = src_mode(mode, size)
                add("%s%s %s,IM" % (m, SUF[size], mode), m + SUF[size], [dp, imm(size)],
                    (lambda opc, mm, fld, ext, sub, size: lambda pc, d, s:
                     [w1(mm, opc, fld(d), sub)] + ext(d) + immwords(s, size))
                    (0x0C if size == "B" else 0x0D, mm, fld, ext, sub, size))

    # ---- INC / DEC dst,#n (n = 1..16, field n-1; n omitted = 1) ---------------------------------
    for m, opcs in (("INC", {"B": 0x28, "W": 0x29}), ("DEC", {"B": 0x2A, "W": 0x2B})):
        for size, opc in opcs.items():
            for mode in ("R", "IR", "DA", "X"):
                dp, mm, fld, ext = src_mode(mode, size)
                add("%s%s %s,n" % (m, SUF[size], mode), m + SUF[size], [dp, num(1, 16)],
                    (lambda opc, mm, fld, ext: lambda pc, d, n: [w1(mm, opc, fld(d), n - 1)] + ext(d))
                    (opc, mm, fld, ext))
                dp, mm, fld, ext = src_mode(mode, size)
                add("%s%s %s" % (m, SUF[size], mode), m + SUF[size], [dp],
                    (lambda opc, mm, fld, ext: lambda pc, d: [w1(mm, opc, fld(d), 0)] + ext(d))(opc, mm, fld, ext))

    # ---- BIT / SET / RES ------------------------------------------------------------------------
    for m, opcs in (("BIT", {"B": 0x26, "W": 0x27}), ("SET", {"B": 0x24, "W": 0x25}), ("RES", {"B": 0x22, "W": 0x23})):
        for size, opc in opcs.items():
            top = 7 if size == "B" else 15
            for mode in ("R", "IR", "DA", "X"):
                dp, mm, fld, ext = src_mode(mode, size)
                add("%s%s %s,b" % (m, SUF[size], mode), m + SUF[size], [dp, num(0, top, "b")],
                    (lambda opc, mm, fld, ext: lambda pc, d, b: [w1(mm, opc, fld(d), b)] + ext(d))
                    (opc, mm, fld, ext))
            # dynamic: bit number in a word register
            add("%s%s R,R" % (m, SUF[size]), m + SUF[size], [reg(size), rw()],
                (lambda opc: lambda pc, d, s: [w1(0, opc, 0, s), d << 8])(opc))

    # ---- shifts and rotates ---------------------------------------------------------------------
    for m, base in (("RL", 0x0), ("RLC", 0x8), ("RR", 0x4), ("RRC", 0xC)):
        for size in ("B", "W"):
            opc = 0xB2 if size == "B" else 0xB3
            add("%s%s R,n" % (m, SUF[size]), m + SUF[size], [reg(size), num(1, 2)],
                (lambda opc, base: lambda pc, d, n: [opc << 8 | d << 4 | base | (n - 1) << 1])(opc, base))
            add("%s%s R" % (m, SUF[size]), m + SUF[size], [reg(size)],
                (lambda opc, base: lambda pc, d: [opc << 8 | d << 4 | base])(opc, base))
    WIDTH = {"B": 8, "W": 16, "L": 32}
    for m, arith, right in (("SLA", 8, False), ("SLL", 0, False), ("SRA", 8, True), ("SRL", 0, True)):
        for size in ("B", "W", "L"):
            opc = 0xB2 if size == "B" else 0xB3
            sub = (5 if size == "L" else 1) | arith
            dc = bytes([0, 0, 0xff, 0]) if (size == "B" and right) else None
            add("%s%s R,n" % (m, SUF[size]), m + SUF[size], [reg(size), num(1 if right else 0, WIDTH[size])],
                (lambda opc, sub, right: lambda pc, d, n: [opc << 8 | d << 4 | sub, (-n if right else n) & 0xffff])
                (opc, sub, right), dontcare=dc)
            add("%s%s R" % (m, SUF[size]), m + SUF[size], [reg(size)],
                (lambda opc, sub, right: lambda pc, d: [opc << 8 | d << 4 | sub, 0xffff if right else 1])
                (opc, sub, right), dontcare=dc)
    for m, arith in (("SDA", 8), ("SDL", 0)):
        for size in ("B", "W", "L"):
            opc = 0xB2 if size == "B" else 0xB3
            sub = (7 if size == "L" else 3) | arith
            add("%s%s R,R" % (m, SUF[size]), m + SUF[size], [reg(size), rw()],
                (lambda opc, sub: lambda pc, d, s: [opc << 8 | d << 4 | sub, s << 8])(opc, sub))
    add("RLDB Rb,Rb", "RLDB", [rb(), rb()], lambda pc, l, s: [0xBE00 | s << 4 | l])
    add("RRDB Rb,Rb", "RRDB", [rb(), rb()], lambda pc, l, s: [0xBC00 | s << 4 | l])

    # ---- program control ------------------------------------------------------------------------
    for mode in ("IR", "DA", "X"):
        dp, mm, fld, ext = src_mode(mode, "W")
        add("JP cc," + mode, "JP", [cc(), dp],
            (lambda mm, fld, ext: lambda pc, c, d: [w1(mm, 0x1E, fld(d), c)] + ext(d))(mm, fld, ext))
        dp, mm, fld, ext = src_mode(mode, "W")
        add("JP " + mode, "JP", [dp],
            (lambda mm, fld, ext: lambda pc, d: [w1(mm, 0x1E, fld(d), ALWAYS)] + ext(d))(mm, fld, ext))
        dp, mm, fld, ext = src_mode(mode, "W")
        add("CALL " + mode, "CALL", [dp],
            (lambda mm, fld, ext: lambda pc, d: [w1(mm, 0x1F, fld(d), 0)] + ext(d))(mm, fld, ext))
    f, ri = add("JR cc,rel", "JR", [cc(), Part("rel", "{}", [Rel(-128, 127, 2, scale=2)], lambda v: v[0])],
                lambda pc, c, d: [0xE000 | c << 8 | (d & 0xff)])
    f.rel = (ri, lambda b: sx(b[1], 8))
    f, ri = add("JR rel", "JR", [Part("rel", "{}", [Rel(-128, 127, 2, scale=2)], lambda v: v[0])],
                lambda pc, d: [0xE000 | ALWAYS << 8 | (d & 0xff)])
    f.rel = (ri, lambda b: sx(b[1], 8))
    # CALR: PC <- PC - 2*disp12; the case value is -disp
    f, ri = add("CALR rel", "CALR", [Part("rel", "{}", [Rel(-2047, 2048, 2, scale=2)], lambda v: v[0])],
                lambda pc, d: [0xD000 | (-d & 0xfff)])
    f.rel = (ri, lambda b: -sx((b[0] << 8 | b[1]) & 0xfff, 12))
    # DJNZ: PC <- PC - 2*disp7 (backward only)
    for m, size, w in (("DJNZ", "W", 0x80), ("DBJNZ", "B", 0)):
        f, ri = add(m + " R,rel", m, [reg(size), Part("rel", "{}", [Rel(-127, 0, 2, scale=2)], lambda v: v[0])],
                    (lambda w: lambda pc, r, d: [0xF000 | r << 8 | w | (-d & 0x7f)])(w))
        f.rel = (ri, lambda b: -(b[1] & 0x7f))
    add("RET cc", "RET", [cc()], lambda pc, c: [0x9E00 | c])
    add("RET", "RET", [], lambda pc: [0x9E00 | ALWAYS])
    add("SC n", "SC", [num(0, 255, rej_lo=False)], lambda pc, n: [0x7F00 | n])
    for m, opc in (("TCCB", 0xAE), ("TCC", 0xAF)):
        add(m + " cc,R", m, [cc(), reg("B" if m == "TCCB" else "W")],
            (lambda opc: lambda pc, c, d: [opc << 8 | d << 4 | c])(opc))

    # ---- PUSH / POP -----------------------------------------------------------------------------
    for size, push, pop in (("W", 0x13, 0x17), ("L", 0x11, 0x15)):
        for mode in ("R", "IR", "DA", "X"):
            sp, mm, fld, ext = src_mode(mode, size)
            add("PUSH%s IR,%s" % (SUF[size], mode), "PUSH" + SUF[size], [ir(), sp],
                (lambda opc, mm, fld, ext: lambda pc, d, s: [w1(mm, opc, d, fld(s))] + ext(s))(push, mm, fld, ext))
            dp, mm, fld, ext = src_mode(mode, size)
            add("POP%s %s,IR" % (SUF[size], mode), "POP" + SUF[size], [dp, ir()],
                (lambda opc, mm, fld, ext: lambda pc, d, s: [w1(mm, opc, s, fld(d))] + ext(d))(pop, mm, fld, ext))
    add("PUSH IR,IM", "PUSH", [ir(), imm("W")], lambda pc, d, s: [0x0D09 | d << 4, s & 0xffff])

    # ---- LDK, LDM, misc register ops ------------------------------------------------------------
    add("LDK R,n", "LDK", [rw(), num(0, 15)], lambda pc, d, n: [0xBD00 | d << 4 | n])
    for mode in ("IR", "DA", "X"):
        sp, mm, fld, ext = src_mode(mode, "W")
        add("LDM R,%s,n" % mode, "LDM", [rw(), sp, num(1, 16)],
            (lambda mm, fld, ext: lambda pc, d, s, n: [w1(mm, 0x1C, fld(s), 1), d << 8 | (n - 1)] + ext(s))(mm, fld, ext))
        dp, mm, fld, ext = src_mode(mode, "W")
        add("LDM %s,R,n" % mode, "LDM", [dp, rw(), num(1, 16)],
            (lambda mm, fld, ext: lambda pc, d, s, n: [w1(mm, 0x1C, fld(d), 9), s << 8 | (n - 1)] + ext(d))(mm, fld, ext))
    add("DAB Rb", "DAB", [rb()], lambda pc, d: [0xB000 | d << 4])
    add("EXTSB R", "EXTSB", [rw()], lambda pc, d: [0xB100 | d << 4])
    add("EXTS RR", "EXTS", [rl()], lambda pc, d: [0xB10A | d << 4])
    add("EXTSL RQ", "EXTSL", [rq()], lambda pc, d: [0xB107 | d << 4])

    # ---- block transfer / compare / translate ----------------------------------------------------
    for size in ("B", "W"):
        opc = 0xBA if size == "B" else 0xBB
        s_ = SUF[size]
        for m, sub in (("CPI", 0x0), ("CPIR", 0x4), ("CPD", 0x8), ("CPDR", 0xC)):
            add("%s%s R,IR,r,cc" % (m, s_), m + s_, [reg(size), ir(), rw(), cc()],
                (lambda opc, sub: lambda pc, d, s, r, c: [opc << 8 | s << 4 | sub, r << 8 | d << 4 | c])(opc, sub))
        for m, sub in (("CPSI", 0x2), ("CPSIR", 0x6), ("CPSD", 0xA), ("CPSDR", 0xE)):
            add("%s%s IR,IR,r,cc" % (m, s_), m + s_, [ir(), ir(), rw(), cc()],
                (lambda opc, sub: lambda pc, d, s, r, c: [opc << 8 | s << 4 | sub, r << 8 | d << 4 | c])(opc, sub))
        for m, sub, last in (("LDI", 0x1, 8), ("LDIR", 0x1, 0), ("LDD", 0x9, 8), ("LDDR", 0x9, 0)):
            add("%s%s IR,IR,r" % (m, s_), m + s_, [ir(), ir(), rw()],
                (lambda opc, sub, last: lambda pc, d, s, r: [opc << 8 | s << 4 | sub, r << 8 | d << 4 | last])
                (opc, sub, last))
    for m, sub, last in (("TRIB", 0x0, 0), ("TRIRB", 0x4, 0), ("TRDB", 0x8, 0), ("TRDRB", 0xC, 0),
                         ("TRTIB", 0x2, 0), ("TRTIRB", 0x6, 0xE), ("TRTDB", 0xA, 0), ("TRTDRB", 0xE, 0xE)):
        # RH1 is the scratch register of the translate instructions: Zilog excludes R1 as pointer and counter
        add(m + " IR,IR,r", m, [ir_no1(), ir_no1(), rw_no1()],
            (lambda sub, last: lambda pc, d, s, r: [0xB800 | d << 4 | sub, r << 8 | s << 4 | last])(sub, last))

    # ---- input / output -------------------------------------------------------------------------
    for size in ("B", "W"):
        s_ = SUF[size]
        o1 = 0x3C if size == "B" else 0x3D
        o2 = 0x3A if size == "B" else 0x3B
        add("IN%s R,IR" % s_, "IN" + s_, [reg(size), ir()], (lambda o: lambda pc, d, s: [o << 8 | s << 4 | d])(o1))
        add("OUT%s IR,R" % s_, "OUT" + s_, [ir(), reg(size)],
            (lambda o: lambda pc, d, s: [o << 8 | d << 4 | s])(o1 + 2))
        for m, sub in (("IN", 4), ("SIN", 5)):
            add("%s%s R,port" % (m, s_), m + s_, [reg(size), port()],
                (lambda o, sub: lambda pc, d, p: [o << 8 | d << 4 | sub, p])(o2, sub))
        for m, sub in (("OUT", 6), ("SOUT", 7)):
            add("%s%s port,R" % (m, s_), m + s_, [port(), reg(size)],
                (lambda o, sub: lambda pc, p, s: [o << 8 | s << 4 | sub, p])(o2, sub))
        for m, sub, last in (("INI", 0x0, 8), ("INIR", 0x0, 0), ("SINI", 0x1, 8), ("SINIR", 0x1, 0),
                             ("OUTI", 0x2, 8), ("OTIR", 0x2, 0), ("SOUTI", 0x3, 8), ("SOTIR", 0x3, 0),
                             ("IND", 0x8, 8), ("INDR", 0x8, 0), ("SIND", 0x9, 8), ("SINDR", 0x9, 0),
                             ("OUTD", 0xA, 8), ("OTDR", 0xA, 0), ("SOUTD", 0xB, 8), ("SOTDR", 0xB, 0)):
            add("%s%s IR,IR,r" % (m, s_), m + s_, [ir(), ir(), rw()],
                (lambda o, sub, last: lambda pc, d, s, r: [o << 8 | s << 4 | sub, r << 8 | d << 4 | last])
                (o2, sub, last))

    # ---- CPU control ----------------------------------------------------------------------------
    CTL = [("FCW", 2), ("REFRESH", 3), ("PSAP", 5), ("NSP", 7), ("PSAPOFF", 5), ("NSPOFF", 7)]
    add("LDCTL R,ctl", "LDCTL", [rw(), names("ctl", CTL)], lambda pc, d, c: [0x7D00 | d << 4 | c])
    add("LDCTL ctl,R", "LDCTL", [names("ctl", CTL), rw()], lambda pc, c, s: [0x7D08 | s << 4 | c])
    add("LDCTLB Rb,FLAGS", "LDCTLB", [rb(), Part("FLAGS", "FLAGS", [], lambda v: 0)], lambda pc, d, _: [0x8C01 | d << 4])
    add("LDCTLB FLAGS,Rb", "LDCTLB", [Part("FLAGS", "FLAGS", [], lambda v: 0), rb()], lambda pc, _, s: [0x8C09 | s << 4])
    for mode in ("IR", "DA", "X"):
        sp, mm, fld, ext = src_mode(mode, "W")
        add("LDPS " + mode, "LDPS", [sp],
            (lambda mm, fld, ext: lambda pc, s: [w1(mm, 0x39, fld(s), 0)] + ext(s))(mm, fld, ext))
    # flags: C = bit 7, Z = bit 6, S = bit 5, P/V = bit 4
    FLG = []
    for k in range(1, 16):
        t = [n for b, n in ((8, "C"), (4, "Z"), (2, "S"), (1, "P")) if k & b]
        FLG.append((",".join(t), k))
    FLG += [("V", 1), ("P/V", 1), ("C,Z,P/V", 13), ("S,V", 3), ("Z,C", 12), ("P,S,Z,C", 15)]
    for m, sub in (("SETFLG", 1), ("RESFLG", 3), ("COMFLG", 5)):
        add(m + " flags", m, [names("flags", FLG)], (lambda sub: lambda pc, f: [0x8D00 | f << 4 | sub])(sub))
    # DI / EI: a 0 bit in the instruction selects the interrupt (VI = bit 1, NVI = bit 0)
    INT = [("VI", 1), ("NVI", 2), ("VI,NVI", 0), ("NVI,VI", 0)]
    add("DI int", "DI", [names("int", INT)], lambda pc, i: [0x7C00 | i])
    add("EI int", "EI", [names("int", INT)], lambda pc, i: [0x7C04 | i])
    for m, w in (("NOP", 0x8D07), ("HALT", 0x7A00), ("IRET", 0x7B00), ("MSET", 0x7B08), ("MRES", 0x7B09),
                 ("MBIT", 0x7B0A)):
        add(m, m, [], (lambda w: lambda pc: [w])(w))
    add("MREQ R", "MREQ", [rw()], lambda pc, d: [0x7B0D | d << 4])
    return F


# The golden cross-check of vf.isa.selftest reads word tokens of the listing as little endian; this
# family is big endian, so the table is not registered there (golden=None) and cross-checked by
# `python3-vt -m vf.isa.z8000 [-v]` instead, which runs the same comparison with big-endian tokens.
GOLDEN = [("t_z8000", {"z8002": True})]

ISAS = [Isa("Z8002", "Z8002", build(), "intel", pcsym="$", gran=1, slot=16, base=0x2000, offsets=[0, 2, 4, 6],
            prologue=["\tsupmode\ton"])]


def golden_check(verbose=False):
    from . import selftest, listing

    def be_tokens(toks, gran):
        b = bytearray()
        for t in toks:
            if len(t) % 2:
                raise ValueError("odd token " + t)
            b += bytes.fromhex(t)
        return bytes(b)
    isa = Isa("Z8002", "Z8002", ISAS[0].forms, "intel", golden=GOLDEN)
    saved = listing.tokens_to_bytes
    listing.tokens_to_bytes = be_tokens
    try:
        return selftest.check_isa(isa, verbose)
    finally:
        listing.tokens_to_bytes = saved


if __name__ == "__main__":
    import sys
    from .. import build as _build
    _build.build("plain")
    r = golden_check("-v" in sys.argv)
    print("Z8002    golden t_z8000: %d instruction lines, %d matched (%d/%d forms), %d unmodelled, %d MISMATCHED"
          % (r["lines"], r["matched"], len(r["forms_seen"]), len(ISAS[0].forms), r["unmodelled"], len(r["mismatched"])))
    for m in r["mismatched"][:40]:
        print("    " + m)
    sys.exit(1 if r["mismatched"] else 0)
