"""Independent reference encoders for property C14 (one module per processor family)."""
import importlib

MODULES = ["mos65", "i8080", "z80", "i4004", "pic16c84", "avr", "msp430"]


def load():
    """{isa name: Isa} of every table module that exists"""
    out = {}
    for m in MODULES:
        try:
            mod = importlib.import_module("vf.isa." + m)
        except ModuleNotFoundError as e:
            if e.name == "vf.isa." + m:
                continue
            raise
        for isa in mod.ISAS:
            out[isa.name] = isa
    return out
