"""Independent reference encoders for property C14 (one module per processor family)."""
import importlib
import os

MODULES = ["mos65", "i8080", "z80", "i4004", "pic16c84", "avr", "msp430"]
# further table modules, one name per line, are listed in vf/isa/EXTRA.txt once they are finished and reviewed;
# development aid (never set by registered commands): VERIF_ISA_EXTRA=mod1,mod2 adds modules under construction
_extra = os.path.join(os.path.dirname(os.path.abspath(__file__)), "EXTRA.txt")


def module_names():
    names = list(MODULES)
    if os.path.exists(_extra):
        names += [l.strip() for l in open(_extra) if l.strip() and not l.startswith("#")]
    names += [m.strip() for m in (os.environ.get("VERIF_ISA_EXTRA") or "").split(",") if m.strip()]
    out = []
    for n in names:
        if n not in out:
            out.append(n)
    return out


def load():
    """{isa name: Isa} of every table module that exists"""
    out = {}
    for m in module_names():
        try:
            mod = importlib.import_module("vf.isa." + m)
        except ModuleNotFoundError as e:
            if e.name == "vf.isa." + m:
                continue
            raise
        for isa in mod.ISAS:
            out[isa.name] = isa
    return out
