"""Scenix / Ubicom / Parallax SX20AC / SX28AC reference encoder (SX18AC/SX20AC/SX28AC data sheet, chapter
"Instruction Set Summary Table": logical, arithmetic and shift, bitwise, data movement, program control and
system control instructions with their 12-bit opcodes).  Written from Scenix' definition, not from
codesx20.c.

  AND fr,W 0001 011f ffff   AND W,fr 0001 010f ffff   AND W,#lit 1110 kkkk kkkk   NOT fr  0010 011f ffff
  OR  fr,W 0001 001f ffff   OR  W,fr 0001 000f ffff   OR  W,#lit 1101 kkkk kkkk
  XOR fr,W 0001 101f ffff   XOR W,fr 0001 100f ffff   XOR W,#lit 1111 kkkk kkkk
  ADD fr,W 0001 111f ffff   ADD W,fr 0001 110f ffff   SUB fr,W   0000 101f ffff
  CLR fr   0000 011f ffff   CLR W    0000 0100 0000   CLR !WDT   0000 0000 0100
  DEC fr   0000 111f ffff   DECSZ fr 0010 111f ffff   INC fr     0010 101f ffff   INCSZ fr 0011 111f ffff
  RL fr    0011 011f ffff   RR fr    0011 001f ffff   SWAP fr    0011 101f ffff   TEST fr  0010 001f ffff
  CLRB fr.bit 0100 bbbf ffff   SETB 0101 bbbf ffff   SNB 0110 bbbf ffff   SB 0111 bbbf ffff
  MOV fr,W    0000 001f ffff   MOV W,fr    0010 000f ffff   MOV W,fr-W  0000 100f ffff   MOV W,#lit 1100 kkkk kkkk
  MOV W,/fr   0010 010f ffff   MOV W,--fr  0000 110f ffff   MOV W,++fr  0010 100f ffff
  MOV W,<<fr  0011 010f ffff   MOV W,>>fr  0011 000f ffff   MOV W,<>fr  0011 100f ffff
  MOVSZ W,--fr 0010 110f ffff  MOVSZ W,++fr 0011 110f ffff
  MOV W,M 0000 0100 0010   MOV M,W 0000 0100 0011   MOV M,#lit 0000 0101 kkkk
  MOV !rx,W 0000 0000 0fff (rx = 5,6,7: RA, RB, RC)      MOV !OPTION,W 0000 0000 0010
  CALL addr8 1001 kkkk kkkk   JMP addr9 101k kkkk kkkk   NOP 0000 0000 0000
  RET 0000 0000 1100   RETP 0000 0000 1101   RETI 0000 0000 1110   RETIW 0000 0000 1111   RETW lit 1000 kkkk kkkk
  BANK addr8 0000 0001 1nnn (n = addr<7:5>)   PAGE addr12 0000 0001 0nnn (n = addr<11:9>)
  IREAD 0000 0100 0001   SLEEP 0000 0000 0011
Single-word equivalents of the data sheet's "equivalent assembler mnemonics": CLC/CLZ/SEC/SEZ = CLRB/SETB
STATUS.0/.2 (STATUS = $03), SC/SZ = SB STATUS.0/.2, NOT W = XOR W,#$FF, JMP W = MOV PC,W (PC = $02),
JMP PC+W = ADD PC,W, MODE lit = MOV M,#lit.

One 12-bit instruction word per CODE address, stored as 16-bit little endian word (upper four bits zero).

File register operands: the 5-bit field value 0..31 only (larger data addresses carry the bank in FSR<7:5>;
AS masks them and warns, see processor-specific-hints.md "SX20/28"; `ASSUME FSR:$10` is given so that
$10..$1F are bank 0); 256 and above are outside the data space and must be rejected.
JMP: any address of the 2K-word program memory, the instruction holds its low 9 bits (page from STATUS
PA<2:0>; AS only warns when the page differs).  CALL: bit 8 of the target is forced to 0 by the hardware,
so a target with bit 8 set cannot be called and must be rejected.
PAGE addresses $800..$FFF (SX48/52 only) are not generated; >= $1000 is beyond the field.
MOV !rx,W is generated for the port registers the device has (SX20: RA, RB; SX28: RA, RB, RC).

Not generated: SKIP (its encoding depends on the address), multi-operand RETW, LCALL/LJMP-like compound
forms, negative values of the 4-bit MODE literal.

KNOWN: BANK addr8 assembles to 080n (a RETW n) instead of 0000 0001 1nnn = 018+n; the golden image of
tests/t_sx20 asserts 0804 for `bank $90`, so the form is left out (proposed/C14/sx20-bank-opcode.md).
KNOWN: MOV M,W assembles to 003 (the opcode of SLEEP) instead of 0000 0100 0011 = 043; asserted by the golden
image of tests/t_sx20 as well, so the form is left out (proposed/C14/sx20-mov-m-w-opcode.md).
"""
from .common import Form, Int, Isa, le16


class Fr(Int):
    """file register in the `fr.bit` notation: never replaced by a symbol (AS symbols may contain dots)"""
    kind = "sxfr"


class Bit(Int):
    kind = "sxbit"


class Addr(Int):
    def classify(self, v, pc=0, vals=None):
        return "excl" if v < 0 else Int.classify(self, v, pc, vals)


class CallAddr(Addr):
    """CALL target inside one 512-word page: only its lower 256 words can be called"""

    def __init__(self, page, top):
        Int.__init__(self, page * 0x200, page * 0x200 + 0xFF, rej_lo=False, rej_hi=True)
        self.top = top

    def classify(self, v, pc=0, vals=None):
        if v < 0:
            return "excl"
        if v > self.top or v & 0x100:
            return "rej"
        return "ok" if self.lo <= v <= self.hi else "excl"


F5 = lambda: Int(0, 31, rej_lo=False, rej_from=256)
K8 = lambda: Int(-128, 255)

FR_W = [("AND", 0x160), ("OR", 0x120), ("XOR", 0x1A0), ("ADD", 0x1E0), ("SUB", 0x0A0), ("MOV", 0x020)]
W_FR = [("AND", 0x140), ("OR", 0x100), ("XOR", 0x180), ("ADD", 0x1C0), ("MOV", 0x200)]
W_LIT = [("AND", 0xE00), ("OR", 0xD00), ("XOR", 0xF00), ("MOV", 0xC00)]
FR1 = [("NOT", 0x260), ("CLR", 0x060), ("DEC", 0x0E0), ("DECSZ", 0x2E0), ("INC", 0x2A0), ("INCSZ", 0x3E0),
       ("RL", 0x360), ("RR", 0x320), ("SWAP", 0x3A0), ("TEST", 0x220)]
MOVW = [("MOV W,/fr", "MOV W,/{0}", 0x240), ("MOV W,--fr", "MOV W,--{0}", 0x0C0), ("MOV W,++fr", "MOV W,++{0}", 0x280),
        ("MOV W,<<fr", "MOV W,<<{0}", 0x340), ("MOV W,>>fr", "MOV W,>>{0}", 0x300), ("MOV W,<>fr", "MOV W,<>{0}", 0x380),
        ("MOV W,fr-W", "MOV W,{0}-W", 0x080),
        ("MOVSZ W,--fr", "MOVSZ W,--{0}", 0x2C0), ("MOVSZ W,++fr", "MOVSZ W,++{0}", 0x3C0)]
BITS = [("CLRB", 0x400), ("SETB", 0x500), ("SNB", 0x600), ("SB", 0x700)]
FIXED = [("NOP", 0x000), ("CLR W", 0x040), ("CLR !WDT", 0x004), ("MOV W,M", 0x042),
         # KNOWN: ("MOV M,W", 0x043) - asl emits 0x003 (= SLEEP), asserted by tests/t_sx20; not generated
         ("MOV !OPTION,W", 0x002), ("RET", 0x00C), ("RETP", 0x00D), ("RETI", 0x00E), ("RETIW", 0x00F),
         ("IREAD", 0x041), ("SLEEP", 0x003),
         # equivalent mnemonics
         ("CLC", 0x403), ("CLZ", 0x443), ("SEC", 0x503), ("SEZ", 0x543), ("SC", 0x703), ("SZ", 0x743),
         ("NOT W", 0xFFF), ("JMP W", 0x022), ("JMP PC+W", 0x1E2)]


def build(ports):
    F = []

    def form(name, fmt, ops, enc):
        F.append(Form(name, fmt, ops, (lambda e: lambda pc, v: le16(e(*v)))(enc)))

    for m, op in FIXED:
        form(m, m, [], (lambda o: lambda: o)(op))
    for m, op in FR_W:
        form(m + " fr,W", m + " {0},W", [F5()], (lambda o: lambda f: o | f)(op))
    for m, op in W_FR:
        form(m + " W,fr", m + " W,{0}", [F5()], (lambda o: lambda f: o | f)(op))
    for m, op in W_LIT:
        form(m + " W,#lit", m + " W,#{0}", [K8()], (lambda o: lambda k: o | k & 0xff)(op))
    for m, op in FR1:
        form(m + " fr", m + " {0}", [F5()], (lambda o: lambda f: o | f)(op))
    for n, fmt, op in MOVW:
        form(n, fmt, [F5()], (lambda o: lambda f: o | f)(op))
    for m, op in BITS:
        form(m + " fr.bit", m + " {0}.{1}", [Fr(0, 31, rej_lo=False, rej_from=256), Bit(0, 7, rej_lo=False)],
             (lambda o: lambda f, b: o | b << 5 | f)(op))
    form("MOV M,#lit", "MOV M,#{0}", [Int(0, 15, rej_lo=False)], lambda k: 0x050 | k)
    form("MODE lit", "MODE {0}", [Int(0, 15, rej_lo=False)], lambda k: 0x050 | k)
    form("MOV !rx,W", "MOV !{0},W", [Int(5, ports, rej_lo=False, rej_from=8)], lambda r: r)
    form("RETW lit", "RETW {0}", [K8()], lambda k: 0x800 | k & 0xff)
    form("JMP addr9", "JMP {0}", [Addr(0, 0x7FF, rej_lo=False, extra=(0x1FF, 0x200, 0x3FF, 0x400, 0x5FF, 0x600))],
         lambda k: 0xA00 | k & 0x1FF)
    for p in range(4):
        form("CALL addr8 (page %d)" % p, "CALL {0}", [CallAddr(p, 0x7FF)], lambda k: 0x900 | k & 0xFF)
    form("PAGE addr12", "PAGE {0}", [Addr(0, 0x7FF, rej_lo=False, rej_from=0x1000, extra=(0x1FF, 0x200, 0x3FF, 0x400, 0x5FF, 0x600))],
         lambda k: 0x010 | k >> 9)
    # KNOWN: BANK addr8 (0x018 | addr >> 5) - asl emits 0x800 | addr >> 5, asserted by tests/t_sx20; not generated
    return F


PROLOGUE = ["\tassume\tfsr:$10", "\tassume\tstatus:0"]

ISAS = [Isa("SX20", "SX20", build(6), "mot", pcsym="*", gran=2, slot=1, base=0x20, maxaddr=0x7ff, prologue=PROLOGUE,
            golden=[("t_sx20", {"sx20": True})],
            # selftest would read `--$0b` / `++$0e` as the expression +11 / +14 of the plain MOV W,fr form
            golden_ignore=("mov w,--$0b", "mov w,++$0e")),
        Isa("SX28", "SX28", build(7), "mot", pcsym="*", gran=2, slot=1, base=0x20, maxaddr=0x7ff, prologue=PROLOGUE)]
