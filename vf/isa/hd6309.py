"""Hitachi HD6309 (HD63B09/HD63C09) reference encoder: the additions to the MC6809 instruction set.

Source of truth: the HD6309 instruction set as published in H. Kakugawa, "A memo on the secret features of
6309" (the reference doc/bibliography.md names), C. Burke, "The 6309 Book" and D. Atkinson, "Motorola 6809
and Hitachi 6309 Programmer's Reference": opcode maps of page 1 and of the pages with prebyte $10 / $11,
the extended TFR/EXG register numbering, the postbyte of the bit-transfer group and the additional indexed
postbytes.  Written from those definitions, not from code6809.c.  The MC6809 part of the instruction set is
table m6809.py (whose golden cross-check test t_full09 is assembled as 6309 already); this module carries
the 6309-only forms, plus the 6309-only indexed modes applied to every 6809 memory instruction.

  registers        E F (8 bit), W = E:F, V (16 bit), Q = D:W, MD; TFR/EXG numbers D0 X1 Y2 U3 S4 PC5 W6 V7
                   A8 B9 CC10 DP11 (12 and 13 read as zero) E14 F15
  inter-register   ADDR ADCR SUBR SBCR ANDR ORR EORR CMPR r0,r1   $10 $30-$37, postbyte r0<<4 | r1
  block transfer   TFM r0+,r1+ / r0-,r1- / r0+,r1 / r0,r1+         $11 $38-$3B, postbyte r0<<4 | r1,
                   r0, r1 out of D X Y U S (any other register traps as illegal instruction)
  memory-immediate OIM AIM EIM TIM #n,ea    $01 $02 $05 $0B direct, $6x indexed, $7x extended; the
                   immediate byte follows the opcode, then postbyte / address
  bit transfer     BAND BIAND BOR BIOR BEOR BIEOR LDBT STBT   $11 $30-$37, postbyte rr mmm bbb
                   (rr: CC 00, A 01, B 10, 11 invalid; mmm bit number in the memory byte, bbb bit number in
                   the register), then the direct-page address.  AS writes the four operands as
                   `r.bit,addr.bit` (tests/t_full09), which names both bit numbers unambiguously.
  indexed          ,W $8F   n16,W $AF   ,W++ $CF   ,--W $EF   and indirect $90 $B0 $D0 $F0;
                   E,R 1RR00111   F,R 1RR01010   W,R 1RR01110  (indirect: bit 4 set)

Operand spelling: as in m6809.py.  n,W has only a 16-bit offset form: it is generated with the explicit
'>' prefix (all offsets) and without prefix for offsets other than 0 ("0,W" may become ",W").

Not generated:
  - DIVD #n  -  KNOWN: asl emits a 16-bit immediate ($11 $8D hi lo), Hitachi defines an 8-bit divisor
    ($11 $8D n, three bytes); tests/t_full09.ori asserts the four-byte form (proposed/C14/6309-divd-imm8.md)
  - TFR/EXG/inter-register operations between registers of different size (AS rejects them; the 6309
    defines them, but the AS manual does not), AS's own spellings (CLRS.., `ADD A,B`, `PSHS W`, SP, CCR, DPR)
  - the zero register as DESTINATION (no effect) and as EXG operand; as source of TFR and of the
    inter-register group it is generated with AS's spelling Z; both codes 12 and 13 are accepted (don't care)
"""
from .common import Form, Int, Enum, Rel, Op, Isa, sx
from .m6809 import (Wrap16, Steps, IMM8, IMM16, OFF5, OFF8, OFF16, ADDR, AUTO_EXT, AUTO_DIR, DIRECT, IDXREG,
                    RMW as RMW09, ACC as ACC09, W16 as W16_09, LEA as LEA09, hi, lo, w)

# ---- 6309 opcode tables
# 16-bit accumulator operations of page 2 ($10): low nibble in the columns $8x imm, $9x direct, $Ax indexed, $Bx ext
P2_W = {"SUBW": 0x0, "CMPW": 0x1, "SBCD": 0x2, "ANDD": 0x4, "BITD": 0x5, "LDW": 0x6, "STW": 0x7, "EORD": 0x8,
        "ADCD": 0x9, "ORD": 0xA, "ADDW": 0xB}
# 8-bit operations on E ($11 $8x..$Bx) and F ($11 $Cx..$Fx)
P3_EF = {"SUB": 0x0, "CMP": 0x1, "LD": 0x6, "ST": 0x7, "ADD": 0xB}
# division / multiplication of page 3: low nibble in $8x..$Bx; immediate size in bytes
P3_DIV = {"DIVD": (0xD, 1), "DIVQ": (0xE, 2), "MULD": (0xF, 2)}
# memory-immediate group: low nibble in $0x direct, $6x indexed, $7x extended
MEMIMM = {"OIM": 0x1, "AIM": 0x2, "EIM": 0x5, "TIM": 0xB}
# inherent
INH = {"SEXW": (0x14,), "PSHSW": (0x10, 0x38), "PULSW": (0x10, 0x39), "PSHUW": (0x10, 0x3A), "PULUW": (0x10, 0x3B)}
INH_D = {"NEG": 0x0, "COM": 0x3, "LSR": 0x4, "ROR": 0x6, "ASR": 0x7, "ASL": 0x8, "ROL": 0x9, "DEC": 0xA, "INC": 0xC,
         "TST": 0xD, "CLR": 0xF}                                            # $10 $4x
INH_W = {"COM": 0x3, "LSR": 0x4, "ROR": 0x6, "ROL": 0x9, "DEC": 0xA, "INC": 0xC, "TST": 0xD, "CLR": 0xF}   # $10 $5x
INH_EF = {"COM": 0x3, "DEC": 0xA, "INC": 0xC, "TST": 0xD, "CLR": 0xF}      # $11 $4x (E), $11 $5x (F)
INTERREG = {"ADDR": 0x30, "ADCR": 0x31, "SUBR": 0x32, "SBCR": 0x33, "ANDR": 0x34, "ORR": 0x35, "EORR": 0x36,
            "CMPR": 0x37}
BITOPS = {"BAND": 0x30, "BIAND": 0x31, "BOR": 0x32, "BIOR": 0x33, "BEOR": 0x34, "BIEOR": 0x35, "LDBT": 0x36,
          "STBT": 0x37}
BITREG = {"CC": 0, "A": 1, "B": 2}
R16 = {"D": 0, "X": 1, "Y": 2, "U": 3, "S": 4, "PC": 5, "W": 6, "V": 7}
R8 = {"A": 8, "B": 9, "CC": 10, "DP": 11, "E": 14, "F": 15}
TFMREG = ["D", "X", "Y", "U", "S"]


class MustReject(Op):
    """register name: the first `nok` names are valid, the others name registers the instruction does not
    have - they must be rejected"""
    kind = "enum"

    def __init__(self, names, nok):
        self.names = list(names)
        self.nok = nok
        self.name = None

    def classify(self, v, pc=0, vals=None):
        if 0 <= v < self.nok:
            return "ok"
        return "rej" if v < len(self.names) else "excl"

    def boundary_ok(self):
        return list(range(self.nok))

    def boundary_rej(self):
        return list(range(self.nok, len(self.names)))

    def opclass(self, v):
        return "badreg:" + self.names[v] if self.nok <= v < len(self.names) else None

    def draw_ok(self, d):
        return d.int(0, self.nok - 1)

    def draw_rej(self, d):
        return d.int(self.nok, len(self.names) - 1)

    def render(self, v, syntax, hexa):
        return self.names[v]


IMM32 = lambda: Int(-(1 << 31), (1 << 32) - 1, extra=[(1 << 31) - 1, 1 << 31, 0x12345678, -0x12345678])
OFF16NZ = lambda: Int(-32768, 65535, holes=[0])
BITNO = lambda: Int(0, 7)


def w32(x):
    x &= 0xffffffff
    return bytes([x >> 24, (x >> 16) & 0xff, (x >> 8) & 0xff, x & 0xff])


def _sub(fmt, k):
    """shift the operand numbers of a format fragment by k"""
    out, i = "", 0
    while i < len(fmt):
        if fmt[i] == "{":
            j = fmt.index("}", i)
            out += "{%d}" % (int(fmt[i + 1:j]) + k)
            i = j + 1
        else:
            out += fmt[i]
            i += 1
    return out


def build():
    F = []

    def add(name, fmt, ops, enc, rel=None, dontcare=None):
        F.append(Form(name, fmt, ops, enc, rel, dontcare=dontcare))

    # An addressing mode is (tag, text, operands, tail(pc, vals) -> bytes, rel (index, decode(tail bytes)) or None,
    # don't-care mask of the tail or None, pcoff of a relative operand counted from the postbyte or None)
    def modes6309():
        """the indexed modes the 6309 adds"""
        R = lambda: Enum(IDXREG)
        out = []
        for ind, l, r in ((0, "", ""), (0x10, "[", "]")):
            tag = " ind" if ind else ""
            for acc, code in (("E", 0x07), ("F", 0x0A), ("W", 0x0E)):
                out.append(("%s %s,R" % (tag, acc), "%s%s,{0}%s" % (l, acc, r), [R()],
                            (lambda c: lambda pc, v: bytes([0x80 | v[0] << 5 | c]))(code | ind)))
            # W as base register: postbytes $8F/$AF/$CF/$EF, indirect $90/$B0/$D0/$F0
            i = 1 if ind else 0
            out.append((tag + " ,W", l + ",W" + r, [], (lambda b: lambda pc, v: bytes([b]))(0x8F + i)))
            out.append((tag + " >n16,W", l + ">{0},W" + r, [OFF16()],
                        (lambda b: lambda pc, v: bytes([b]) + w(v[0]))(0xAF + i)))
            out.append((tag + " n16,W", l + "{0},W" + r, [OFF16NZ()],
                        (lambda b: lambda pc, v: bytes([b]) + w(v[0]))(0xAF + i)))
            out.append((tag + " ,W++", l + ",W++" + r, [], (lambda b: lambda pc, v: bytes([b]))(0xCF + i)))
            out.append((tag + " ,--W", l + ",--W" + r, [], (lambda b: lambda pc, v: bytes([b]))(0xEF + i)))
        return [m + (None, None, None) for m in out]

    def modes6809():
        """the MC6809 indexed modes (MC6809 data sheet, table of the indexed postbytes)"""
        R = lambda: Enum(IDXREG)
        out = []

        def pb(base):
            return lambda pc, v: bytes([0x80 | v[0] << 5 | base])

        for ind, l, r in ((0, "", ""), (0x10, "[", "]")):
            tag = " ind" if ind else ""
            out.append((tag + " ,R", l + ",{0}" + r, [R()], pb(0x04 | ind), None, None, None))
            for acc, code in (("A", 0x06), ("B", 0x05), ("D", 0x0B)):
                out.append(("%s %s,R" % (tag, acc), "%s%s,{0}%s" % (l, acc, r), [R()], pb(code | ind), None, None, None))
            if not ind:
                out.append((" ,R++", ",{0}++", [R()], pb(0x01), None, None, None))
                out.append((" ,--R", ",--{0}", [R()], pb(0x03), None, None, None))
            else:
                out.append((" ind ,R++", "[,{0}{1}]", [R(), Steps("+")], pb(0x11), None, None, None))
                out.append((" ind ,--R", "[,{1}{0}]", [R(), Steps("-")], pb(0x13), None, None, None))
            out.append((tag + " n8,R", l + "<{0},{1}" + r, [OFF8(), R()],
                        (lambda i: lambda pc, v: bytes([0x88 | v[1] << 5 | i, lo(v[0])]))(ind), None, None, None))
            out.append((tag + " n16,R", l + ">{0},{1}" + r, [OFF16(), R()],
                        (lambda i: lambda pc, v: bytes([0x89 | v[1] << 5 | i]) + w(v[0]))(ind), None, None, None))
            out.append((tag + " t8,PCR", l + "<{0},PCR" + r, [("rel8",)],
                        (lambda i: lambda pc, v: bytes([0x8C | i, lo(v[0])]))(ind),
                        (0, lambda t: sx(t[1], 8)), b"\x60", 2))
            out.append((tag + " t16,PCR", l + ">{0},PCR" + r, [("rel16",)],
                        (lambda i: lambda pc, v: bytes([0x8D | i]) + w(v[0]))(ind),
                        (0, lambda t: sx(t[1] << 8 | t[2], 16)), b"\x60", 3))
        out.append((" ,R+", ",{0}+", [R()], pb(0x00), None, None, None))
        out.append((" ,-R", ",-{0}", [R()], pb(0x02), None, None, None))
        out.append((" n5,R", "<<{0},{1}", [OFF5(), R()], lambda pc, v: bytes([v[1] << 5 | (v[0] & 0x1f)]),
                    None, None, None))
        out.append((" [ext]", "[{0}]", [ADDR()], lambda pc, v: bytes([0x9F]) + w(v[0]), None, None, None))
        return out

    def indexed(m, head, modes, pre_ops=(), pre_fmt=""):
        """head(pc, vals) -> the bytes before the postbyte (prebyte, opcode, immediate of OIM..), computed from the
        first len(pre_ops) operands; pre_fmt is the operand text before the addressing mode"""
        k = len(pre_ops)
        for tag, text, ops, tail, rel, dc, pcoff in modes:
            n = len(head(0, [0] * k))
            mops = []
            for o in ops:
                if o == ("rel8",):
                    mops.append(Rel(-128, 127, n + pcoff))
                elif o == ("rel16",):
                    mops.append(Wrap16(n + pcoff))
                else:
                    mops.append(o)
            enc = (lambda t: lambda pc, v: head(pc, v) + t(pc, v[k:]))(tail)
            frel = None
            if rel:
                frel = (rel[0] + k, (lambda dcd, nn: lambda b: dcd(b[nn:]))(rel[1], n))
            add(m + tag, m + " " + pre_fmt + _sub(text, k), list(pre_ops_new(pre_ops)) + mops, enc, rel=frel,
                dontcare=(bytes(n) + dc) if dc else None)

    def pre_ops_new(pre_ops):
        return [f() for f in pre_ops]

    M6309 = modes6309()
    MALL = modes6809() + M6309

    def memory(m, pre, d_op, x_op, e_op, modes, pre_ops=(), pre_fmt="", plain=True):
        """direct / extended columns (when plain) and the given indexed modes; with pre_ops the immediate byte of
        the memory-immediate group follows the opcode"""
        pre = bytes(pre)
        k = len(pre_ops)
        imm = (lambda v: bytes([lo(v[0])])) if k else (lambda v: b"")
        if plain:
            P = lambda: pre_ops_new(pre_ops)
            a = "{%d}" % k
            add(m + " <dir", m + " " + pre_fmt + "<" + a, P() + [DIRECT()],
                lambda pc, v: pre + bytes([d_op]) + imm(v) + bytes([lo(v[k])]))
            add(m + " >ext", m + " " + pre_fmt + ">" + a, P() + [ADDR()],
                lambda pc, v: pre + bytes([e_op]) + imm(v) + w(v[k]))
            add(m + " dir", m + " " + pre_fmt + a, P() + [AUTO_DIR()],
                lambda pc, v: pre + bytes([d_op]) + imm(v) + bytes([lo(v[k])]))
            add(m + " ext", m + " " + pre_fmt + a, P() + [AUTO_EXT()],
                lambda pc, v: pre + bytes([e_op]) + imm(v) + w(v[k]))
        indexed(m, lambda pc, v: pre + bytes([x_op]) + imm(v), modes, pre_ops, pre_fmt)

    # ---- the 6309 indexed modes for every MC6809 memory instruction (opcodes: MC6809 map)
    for m, nib in RMW09.items():
        memory(m, b"", nib, 0x60 | nib, 0x70 | nib, M6309, plain=False)
    memory("JMP", b"", 0x0E, 0x6E, 0x7E, M6309, plain=False)
    memory("JSR", b"", 0x9D, 0xAD, 0xBD, M6309, plain=False)
    for stem, nib in ACC09.items():
        for acc, col in (("A", 0x80), ("B", 0xC0)):
            memory(stem + acc, b"", col | 0x10 | nib, col | 0x20 | nib, col | 0x30 | nib, M6309, plain=False)
    for m, (pre, op, has_imm) in W16_09.items():
        p = bytes([pre]) if pre is not None else b""
        memory(m, p, op | 0x10, op | 0x20, op | 0x30, M6309, plain=False)
    for m, op in LEA09.items():
        memory(m, b"", None, op, None, M6309, plain=False)

    # ---- inherent
    for m, ops in INH.items():
        add(m, m, [], (lambda o: lambda pc, v: bytes(o))(ops))
    for stem, nib in INH_D.items():
        add(stem + "D", stem + "D", [], (lambda o: lambda pc, v: bytes([0x10, o]))(0x40 | nib))
    for stem, nib in INH_W.items():
        add(stem + "W", stem + "W", [], (lambda o: lambda pc, v: bytes([0x10, o]))(0x50 | nib))
    for stem, nib in INH_EF.items():
        add(stem + "E", stem + "E", [], (lambda o: lambda pc, v: bytes([0x11, o]))(0x40 | nib))
        add(stem + "F", stem + "F", [], (lambda o: lambda pc, v: bytes([0x11, o]))(0x50 | nib))

    # ---- memory-immediate group
    for m, nib in MEMIMM.items():
        memory(m, b"", nib, 0x60 | nib, 0x70 | nib, MALL, pre_ops=(IMM8,), pre_fmt="#{0},")

    # ---- 16-bit operations of page 2, LDQ / STQ
    for m, nib in P2_W.items():
        if m != "STW":
            add(m + " #imm16", m + " #{0}", [IMM16()], (lambda o: lambda pc, v: bytes([0x10, o]) + w(v[0]))(0x80 | nib))
        memory(m, b"\x10", 0x90 | nib, 0xA0 | nib, 0xB0 | nib, MALL)
    add("LDQ #imm32", "LDQ #{0}", [IMM32()], lambda pc, v: bytes([0xCD]) + w32(v[0]))
    memory("LDQ", b"\x10", 0xDC, 0xEC, 0xFC, MALL)
    memory("STQ", b"\x10", 0xDD, 0xED, 0xFD, MALL)

    # ---- 8-bit operations on E and F, division and multiplication (page 3)
    for stem, nib in P3_EF.items():
        for acc, col in (("E", 0x80), ("F", 0xC0)):
            m = stem + acc
            if stem != "ST":
                add(m + " #imm8", m + " #{0}", [IMM8()], (lambda o: lambda pc, v: bytes([0x11, o, lo(v[0])]))(col | nib))
            memory(m, b"\x11", col | 0x10 | nib, col | 0x20 | nib, col | 0x30 | nib, MALL)
    for m, (nib, size) in P3_DIV.items():
        if size == 2:
            add(m + " #imm16", m + " #{0}", [IMM16()], (lambda o: lambda pc, v: bytes([0x11, o]) + w(v[0]))(0x80 | nib))
        # KNOWN: DIVD #imm8 ($11 $8D n) is assembled with a 16-bit immediate and asserted so by tests/t_full09.ori:
        # not generated (proposed/C14/6309-divd-imm8.md)
        memory(m, b"\x11", 0x90 | nib, 0xA0 | nib, 0xB0 | nib, MALL)

    # ---- mode register
    add("BITMD #imm8", "BITMD #{0}", [IMM8()], lambda pc, v: bytes([0x11, 0x3C, lo(v[0])]))
    add("LDMD #imm8", "LDMD #{0}", [IMM8()], lambda pc, v: bytes([0x11, 0x3D, lo(v[0])]))

    # ---- register transfer with the 6309 register set (same size), zero register as source
    for m, op in (("EXG", 0x1E), ("TFR", 0x1F)):
        for tag, regs in (("r16", R16), ("r8", R8)):
            names, codes = list(regs), list(regs.values())
            add("%s %s,%s" % (m, tag, tag), m + " {0},{1}", [Enum(names), Enum(names)],
                (lambda o, c: lambda pc, v: bytes([o, c[v[0]] << 4 | c[v[1]]]))(op, codes))
    allregs = dict(R16)
    allregs.update(R8)
    anames, acodes = list(allregs), list(allregs.values())
    add("TFR Z,r", "TFR Z,{0}", [Enum(anames)], lambda pc, v: bytes([0x1F, 0xC0 | acodes[v[0]]]),
        dontcare=b"\x00\x10")
    for m, op in INTERREG.items():
        for tag, regs in (("r16", R16), ("r8", R8)):
            names, codes = list(regs), list(regs.values())
            add("%s %s,%s" % (m, tag, tag), m + " {0},{1}", [Enum(names), Enum(names)],
                (lambda o, c: lambda pc, v: bytes([0x10, o, c[v[0]] << 4 | c[v[1]]]))(op, codes))
        add(m + " Z,r", m + " Z,{0}", [Enum(anames)], (lambda o: lambda pc, v: bytes([0x10, o, 0xC0 | acodes[v[0]]]))(op),
            dontcare=b"\x00\x00\x10")

    # ---- block transfer: D X Y U S only; another register must be rejected
    bad = ["PC", "W", "V", "A", "B", "E", "F"]
    for op, l, r, tag in ((0x38, "+", "+", "r+,r+"), (0x39, "-", "-", "r-,r-"), (0x3A, "+", "", "r+,r"),
                          (0x3B, "", "+", "r,r+")):
        add("TFM " + tag, "TFM {0}%s,{1}%s" % (l, r), [MustReject(TFMREG + bad, 5), MustReject(TFMREG + bad, 5)],
            (lambda o: lambda pc, v: bytes([0x11, o, v[0] << 4 | v[1]]))(op))

    # ---- bit transfer group: register CC A B only, bit numbers 0..7, direct-page address
    bnames, bcodes = list(BITREG), list(BITREG.values())
    for m, op in BITOPS.items():
        for tag, pfx, aop in ((" r.b,<dir.b", "<", DIRECT), (" r.b,dir.b", "", DIRECT)):
            add(m + tag, m + " {0}.{1}," + pfx + "{2}.{3}",
                [MustReject(bnames + ["DP", "E", "F", "D", "X", "W"], 3), BITNO(), aop(), BITNO()],
                (lambda o: lambda pc, v: bytes([0x11, o, bcodes[v[0]] << 6 | v[3] << 3 | v[1], lo(v[2])]))(op))
    return F


FORMS = build()

ISAS = [
    Isa("6309", "6309", FORMS, "mot", pcsym="*", slot=8, base=0x1000, offsets=[0, 1, 3],
        golden=[("t_full09", {"6309": True})],
        # t_full09 runs with ASSUME DPR:8: the word at address 4 is extended there
        golden_ignore=["oim #99,addressfour", "aim #99,addressfour", "eim #-1,addressfour", "tim #-128,addressfour",
                       "ldq addressfour", "stq addressfour"]),
]
