"""Intel MCS-96 (8096 / 8x9x) reference encoder.

Source of truth: Intel "MCS-96 Macro Assembler User's Guide" / Embedded Controller Handbook, chapter
"MCS-96 Instruction Set" (opcode map, instruction formats, operand addressing).  Written from Intel's
definition, not from code96.c.

  The two low bits of the opcode of every instruction with a general operand (aop) select its addressing mode:
      00  register-direct    aop = one byte, the register address
      01  immediate          aop = the constant, one byte (byte operations) or two bytes, low byte first
      10  indirect           aop = one byte, the address of the (even) pointer word register; bit 0 set =
                             auto-increment  [Rn]+
      11  indexed            aop = index register byte; bit 0 clear: short-indexed, a signed 8-bit displacement
                             follows; bit 0 set: long-indexed, a 16-bit displacement follows, low byte first
  layout: [FE prefix] opcode, aop, [second source register,] destination register
  (the FE prefix turns MULU/MULUB/DIVU/DIVUB into the signed MUL/MULB/DIV/DIVB)
  shifts:       opcode, count (0..15) or address of the count register (16..255), register
  SJMP/SCALL:   001c cddd dddddddd   11-bit signed displacement from the end of the instruction
  LJMP/LCALL:   opcode, 16-bit displacement from the end of the instruction (modulo 2^16: "the operand may be any
                address in the entire address space")
  Jcc:          Dx, 8-bit displacement;  DJNZ: E0, breg, disp8;  JBC/JBS: 0011 sbbb, breg, disp8

Registers are plain addresses 0..255 of the register file (doc: MCS-96 treats registers as another address
space, symbols are EQUs); word registers are even, long registers divisible by 4 (Intel: "must be aligned").

AS syntax (tests/t_96 for the spelling only): immediate #n, indirect [r], auto-increment [r]+, indexed n[r];
an absolute address outside the register file is encoded as indexed off the zero register (address 0):
long-indexed in general, and - documented in pseudo-instructions.md, ASSUME / MCS-196 - "absolute addresses in
the area from 0ff80h to 0ffffh may be reached via a short offset relative to the null register".
Shortest-form rule (same paragraph): "displacements may be either short (8 bits, -128 to +127) or long (16
bits). The assembler will automatically use the shortest possible encoding"; '>' forces the long form.

Excluded by construction:
  * displacement 0 (the assembler may and does use plain indirect for 0[r]) and the displacements
    0FF80h..0FFFFh of n[r] (equal to -128..-1 modulo 2^16: whether they count as "short" is not documented)
  * register 0 as index / pointer register together with a displacement (that is the absolute address form)
  * odd word registers, long registers not divisible by 4, odd word addresses (Intel: undefined)
  * negative register numbers / addresses
  * RST (opcode FF): AS has no mnemonic RST;  the generic BR/CALL/Bcc of AS (assembler-chosen length)
  * the 80196 additions (XCH, BMOV, CMPL, DJNZW, PUSHA, POPA, IDLPD, TIJMP ...)
"""
from .common import Form, Int, Rel, Isa, sx

B, W, L = 1, 2, 4      # operand sizes = required alignment of a register


class Wrap16(Rel):
    """16-bit displacement, effective address modulo 2^16: every distance encodable, none rejectable"""

    def __init__(self, pcoff):
        Rel.__init__(self, -32768, 32767, pcoff, 1, band=8)

    def target(self, v, pc):
        return (pc + self.pcoff + v) & 0xffff

    def from_target(self, t, pc):
        return sx(t - pc - self.pcoff, 16)

    def classify(self, v, pc=0, vals=None):
        return "ok" if self.lo <= v <= self.hi else "excl"

    def boundary_ok(self):
        return [0, 1, -1, -self.pcoff, self.lo, self.lo + 1, self.hi, self.hi - 1, 127, 128, -128, -129,
                1023, 1024, -1024, -1025, 0x1000, -0x1000, 0x7000, -0x7000]

    def boundary_rej(self):
        return []

    def opclass(self, v):
        for nm, ref in (("lo", self.lo), ("hi", self.hi), ("11bit-hi", 1023), ("11bit-lo", -1024)):
            if abs(v - ref) <= 1:
                return "rel16@%s%+d" % (nm, v - ref)
        return None

    def draw_ok(self, d):
        if d.int(0, 9) < 4:
            return d.choice(self.boundary_ok())
        return d.int(self.lo, self.hi)

    def draw_rej(self, d):
        return None


def dreg(size):
    """register that must be a register (destination, second source, pointer): 256 cannot be encoded"""
    return Int(0, 256 - size, step=size, rej_lo=False)


def sreg(size):
    """register-direct general operand: an address beyond the register file is the absolute form (below)"""
    return Int(0, 256 - size, step=size, rej_lo=False, rej_hi=False)


def xreg():
    """index register of n[r]: not the zero register"""
    return Int(2, 254, step=2, rej_lo=False)


def imm(size):
    return Int(-128, 255) if size == B else Int(-32768, 65535)


def le(v):
    return [v & 0xff, (v >> 8) & 0xff]


SHORT_HOLES = (0,)
LONG_HOLES = tuple(range(-128, 128))


def modes(size, immediate=True):
    """general operand of the given size -> [(name, text, operands, mode bits, bytes(vals))]"""
    al = 1 if size == B else 2
    out = [("r", "{}", [sreg(al)], 0, lambda v: [v[0]])]
    if immediate:
        out.append(("#", "#{}", [imm(size)], 1, (lambda v: [v[0] & 0xff]) if size == B else (lambda v: le(v[0]))))
    out += [
        ("[r]", "[{}]", [dreg(W)], 2, lambda v: [v[0]]),
        ("[r]+", "[{}]+", [dreg(W)], 2, lambda v: [v[0] | 1]),
        ("d8[r]", "{}[{}]", [Int(-128, 127, rej_lo=False, rej_hi=False, holes=SHORT_HOLES), xreg()], 3,
         lambda v: [v[1], v[0] & 0xff]),
        ("d16[r]", "{}[{}]", [Int(-32768, 0xFF7F, holes=LONG_HOLES, rej_from=0x10000, extra=(128, -129, 255, 256)),
                              xreg()], 3, lambda v: [v[1] | 1] + le(v[0])),
        ("abs", "{}", [Int(0x100, 0xFF80 - al, step=al, rej_lo=False, rej_from=0x10000)], 3,
         lambda v: [0x01] + le(v[0])),
        ("abs-short", "{}", [Int(0xFF80, 0x10000 - al, step=al, rej_lo=False)], 3, lambda v: [0x00, v[0] & 0xff]),
    ]
    return out


def number(tmpl, start):
    out, k = "", start
    parts = tmpl.split("{}")
    for i, part in enumerate(parts):
        out += part
        if i < len(parts) - 1:
            out += "{%d}" % k
            k += 1
    return out


# two-operand instructions: opcode of the register-direct column, prefix, destination size, source size
TWO = {
    "AND": (0x60, None, W, W), "ADD": (0x64, None, W, W), "SUB": (0x68, None, W, W), "MULU": (0x6C, None, L, W),
    "ANDB": (0x70, None, B, B), "ADDB": (0x74, None, B, B), "SUBB": (0x78, None, B, B), "MULUB": (0x7C, None, W, B),
    "OR": (0x80, None, W, W), "XOR": (0x84, None, W, W), "CMP": (0x88, None, W, W), "DIVU": (0x8C, None, L, W),
    "ORB": (0x90, None, B, B), "XORB": (0x94, None, B, B), "CMPB": (0x98, None, B, B), "DIVUB": (0x9C, None, W, B),
    "LD": (0xA0, None, W, W), "ADDC": (0xA4, None, W, W), "SUBC": (0xA8, None, W, W), "LDBZE": (0xAC, None, W, B),
    "LDB": (0xB0, None, B, B), "ADDCB": (0xB4, None, B, B), "SUBCB": (0xB8, None, B, B), "LDBSE": (0xBC, None, W, B),
    "MUL": (0x6C, 0xFE, L, W), "MULB": (0x7C, 0xFE, W, B), "DIV": (0x8C, 0xFE, L, W), "DIVB": (0x9C, 0xFE, W, B),
}
STORE = {"ST": (0xC0, W), "STB": (0xC4, B)}        # no immediate column
# three-operand instructions: opcode, prefix, destination size, size of both sources
THREE = {
    "AND": (0x40, None, W, W), "ADD": (0x44, None, W, W), "SUB": (0x48, None, W, W), "MULU": (0x4C, None, L, W),
    "ANDB": (0x50, None, B, B), "ADDB": (0x54, None, B, B), "SUBB": (0x58, None, B, B), "MULUB": (0x5C, None, W, B),
    "MUL": (0x4C, 0xFE, L, W), "MULB": (0x5C, 0xFE, W, B),
}
SINGLE = {"SKIP": (0x00, B), "CLR": (0x01, W), "NOT": (0x02, W), "NEG": (0x03, W), "DEC": (0x05, W), "EXT": (0x06, L),
          "INC": (0x07, W), "CLRB": (0x11, B), "NOTB": (0x12, B), "NEGB": (0x13, B), "DECB": (0x15, B),
          "EXTB": (0x16, W), "INCB": (0x17, B)}
SHIFT = {"SHR": (0x08, W), "SHL": (0x09, W), "SHRA": (0x0A, W), "SHRL": (0x0C, L), "SHLL": (0x0D, L),
         "SHRAL": (0x0E, L), "SHRB": (0x18, B), "SHLB": (0x19, B), "SHRAB": (0x1A, B)}
CONTROL = {"RET": 0xF0, "PUSHF": 0xF2, "POPF": 0xF3, "TRAP": 0xF7, "CLRC": 0xF8, "SETC": 0xF9, "DI": 0xFA, "EI": 0xFB,
           "CLRVT": 0xFC, "NOP": 0xFD}
JCC = {"JNST": 0xD0, "JNH": 0xD1, "JGT": 0xD2, "JNC": 0xD3, "JNVT": 0xD4, "JNV": 0xD5, "JGE": 0xD6, "JNE": 0xD7,
       "JST": 0xD8, "JH": 0xD9, "JLE": 0xDA, "JC": 0xDB, "JVT": 0xDC, "JV": 0xDD, "JLT": 0xDE, "JE": 0xDF}


def build():
    F = []

    def add(name, fmt, ops, enc, rel=None):
        F.append(Form(name, fmt, ops, enc, rel))

    for m, op in CONTROL.items():
        add(m, m, [], (lambda op: lambda pc, v: bytes([op]))(op))

    # ---- two operands:  op dst,aop  ->  [FE] opcode|mode, aop, dst
    for m, (op, pfx, dsz, ssz) in TWO.items():
        for mn, txt, ops, bits, aop in modes(ssz):
            def enc(pc, v, op=op, pfx=pfx, bits=bits, aop=aop):
                return bytes(([pfx] if pfx else []) + [op | bits] + aop(v[1:]) + [v[0]])
            add("%s r,%s" % (m, mn), "%s {0},%s" % (m, number(txt, 1)), [dreg(dsz)] + ops, enc)
    for m, (op, sz) in STORE.items():
        for mn, txt, ops, bits, aop in modes(sz, immediate=False):
            def enc(pc, v, op=op, bits=bits, aop=aop):
                return bytes([op | bits] + aop(v[1:]) + [v[0]])
            add("%s r,%s" % (m, mn), "%s {0},%s" % (m, number(txt, 1)), [dreg(sz)] + ops, enc)

    # ---- three operands:  op dst,src1,aop  ->  [FE] opcode|mode, aop, src1, dst
    for m, (op, pfx, dsz, ssz) in THREE.items():
        for mn, txt, ops, bits, aop in modes(ssz):
            def enc(pc, v, op=op, pfx=pfx, bits=bits, aop=aop):
                return bytes(([pfx] if pfx else []) + [op | bits] + aop(v[2:]) + [v[1], v[0]])
            add("%s r,r,%s" % (m, mn), "%s {0},{1},%s" % (m, number(txt, 2)), [dreg(dsz), dreg(ssz)] + ops, enc)

    # ---- stack
    for mn, txt, ops, bits, aop in modes(W):
        add("PUSH " + mn, "PUSH " + number(txt, 0), ops,
            (lambda bits, aop: lambda pc, v: bytes([0xC8 | bits] + aop(v)))(bits, aop))
    for mn, txt, ops, bits, aop in modes(W, immediate=False):
        add("POP " + mn, "POP " + number(txt, 0), ops,
            (lambda bits, aop: lambda pc, v: bytes([0xCC | bits] + aop(v)))(bits, aop))

    # ---- one register
    for m, (op, sz) in SINGLE.items():
        add(m + " r", m + " {0}", [dreg(sz)], (lambda op: lambda pc, v: bytes([op, v[0]]))(op))

    # ---- shifts: count 0..15 immediate, 16..255 = address of the byte register holding the count
    for m, (op, sz) in SHIFT.items():
        add(m + " r,#n", m + " {0},#{1}", [dreg(sz), Int(0, 15)],
            (lambda op: lambda pc, v: bytes([op, v[1], v[0]]))(op))
        add(m + " r,r", m + " {0},{1}", [dreg(sz), Int(16, 255, rej_lo=False)],
            (lambda op: lambda pc, v: bytes([op, v[1], v[0]]))(op))
    add("NORML r,r", "NORML {0},{1}", [dreg(L), dreg(B)], lambda pc, v: bytes([0x0F, v[1], v[0]]))

    # ---- jumps and calls
    d8 = lambda k: (lambda b: sx(b[k], 8))
    for m, op in JCC.items():
        add(m + " rel", m + " {0}", [Rel(-128, 127, 2)], (lambda op: lambda pc, v: bytes([op, v[0] & 0xff]))(op),
            (0, d8(1)))
    for m, op in (("SJMP", 0x20), ("SCALL", 0x28)):
        add(m + " rel", m + " {0}", [Rel(-1024, 1023, 2)],
            (lambda op: lambda pc, v: bytes([op | (v[0] >> 8) & 7, v[0] & 0xff]))(op),
            (0, lambda b: sx((b[0] & 7) << 8 | b[1], 11)))
    for m, op in (("LJMP", 0xE7), ("LCALL", 0xEF)):
        add(m + " rel", m + " {0}", [Wrap16(3)], (lambda op: lambda pc, v: bytes([op] + le(v[0])))(op),
            (0, lambda b: sx(b[1] | b[2] << 8, 16)))
    add("BR [r]", "BR [{0}]", [dreg(W)], lambda pc, v: bytes([0xE3, v[0]]))
    add("DJNZ r,rel", "DJNZ {0},{1}", [dreg(B), Rel(-128, 127, 3)], lambda pc, v: bytes([0xE0, v[0], v[1] & 0xff]),
        (1, d8(2)))
    for m, op in (("JBC", 0x30), ("JBS", 0x38)):
        add(m + " r,b,rel", m + " {0},{1},{2}", [dreg(B), Int(0, 7), Rel(-128, 127, 3)],
            (lambda op: lambda pc, v: bytes([op | v[1], v[0], v[2] & 0xff]))(op), (2, d8(2)))
    return F


ISAS = [Isa("8096", "8096", build(), "intel", pcsym="$", gran=1, slot=16, base=0x1000, offsets=[0, 1, 3],
            golden=[("t_96", {"80196": True})])]


def golden_check(verbose=False):
    """vf.isa.selftest only resolves symbols EQU'd to a literal; tests/t_96 names its registers through chains
    (`al equ ax`, `ah equ ax+1`).  This runs the same comparison with those chains resolved:
    python3-vt -m vf.isa.i8096 [-v]"""
    import re
    from . import selftest
    from .. import corpus
    syms = {}
    src = corpus.load("t_96")["src"].decode("latin-1")
    orig = selftest.number

    def number(t):
        v = orig(t)
        if v is None:
            v = syms.get(t.strip().lower())
        return v
    selftest.number = number
    try:
        for line in src.split("\n"):
            m = re.match(r"^(\w+):?\s+equ\s+([^;]+)", line, re.I)
            if m:
                v = selftest.simple_expr(m.group(2), 0, syms)
                if v is not None:
                    syms[m.group(1).lower()] = v
        r = selftest.check_isa(ISAS[0], verbose)
        # lines after `assume wsr:24h` are translated through the 80196's register window (no such thing on the 8096)
        lines = src.split("\n")
        wsr = [i + 1 for i, l in enumerate(lines) if re.search(r"assume\s+wsr", l, re.I)]
        if wsr:
            r["mismatched"] = [m for m in r["mismatched"] if int(re.search(r"line (\d+)", m).group(1)) < wsr[0]]
        return r
    finally:
        selftest.number = orig


if __name__ == "__main__":
    import sys
    from .. import build as _build
    _build.build("plain")
    r = golden_check("-v" in sys.argv)
    print("8096  golden t_96: %d instruction lines, %d matched (%d/%d forms), %d unmodelled, %d MISMATCHED"
          % (r["lines"], r["matched"], len(r["forms_seen"]), len(ISAS[0].forms), r["unmodelled"], len(r["mismatched"])))
    for m in r["mismatched"][:10]:
        print("    " + m)
    sys.exit(1 if r["mismatched"] else 0)
