"""Commodore (CSG) 65CE02 and Hudson HuC6280 reference encoders: the additions to the 65C02 instruction set.

Source of truth: the opcode matrix of the CSG 65CE02 Microprocessor Preliminary Data Sheet (also reproduced in the
Commodore C65 system specification, chapter "CSG 4510 / 65CE02 opcodes"), and the opcode matrix of the HuC6280
CMOS 8-bit Microprocessor Software Manual.  Both processors contain the complete Rockwell R65C02 set (with
RMBn/SMBn/BBRn/BBSn): that part is taken from table mos65.py (build(True)); this module adds the new opcodes.
Written from those definitions, not from code65.c.

65CE02
  new registers Z and B (base page), 16-bit stack pointer
  $02 CLE  $03 SEE  $0B TSY  $2B TYS  $1B INZ  $3B DEZ  $4B TAZ  $6B TZA  $5B TAB  $7B TBA  $DB PHZ  $FB PLZ
  $42 NEG A   $43 ASR A   $44 ASR bp   $54 ASR bp,X
  $12/$32/../$F2 (bp),Z replaces the 65C02's (zp); $82 STA (d,SP),Y   $E2 LDA (d,SP),Y
  $A3 LDZ #  $AB LDZ abs  $BB LDZ abs,X    $C2 CPZ #  $D4 CPZ bp  $DC CPZ abs
  $8B STY abs,X   $9B STX abs,Y   $22 JSR (abs)   $23 JSR (abs,X)   $62 RTN #n
  $C3 DEW bp  $E3 INW bp  $CB ASW abs  $EB ROW abs  $F4 PHW #imm16  $FC PHW abs
  $5C AUG: four-byte instruction reserved for expansion, the three operand bytes are not defined (don't care)
  $13 BPL  $33 BMI  $53 BVC  $73 BVS  $83 BRA  $93 BCC  $B3 BCS  $D3 BNE  $F3 BEQ  $63 BSR with a 16-bit displacement
  MAP/EOM belong to the 4510, not to the 65CE02 (AS does not know them).

  KNOWN: the word-relative branches and BSR are NOT generated.  The 65CE02 adds the 16-bit displacement to the
  address of the instruction + 2 (the program counter has only been advanced over the first displacement byte;
  this is why the 4510 support of other assemblers computes target - (pc + 2), and what the C65 ROMs rely on);
  asl computes target - (pc + 3), and tests/t_65ce02.ori asserts that (proposed/C14/65ce02-word-relative-base.md).
  Instructions that only have an absolute form (LDZ, ASW, ROW, PHW, JSR (abs)) take any 16-bit address.

HuC6280
  $02 SXY  $22 SAX  $42 SAY  $62 CLA  $82 CLX  $C2 CLY  $54 CSL  $D4 CSH  $F4 SET
  $03 ST0 #  $13 ST1 #  $23 ST2 #  $43 TMA #  $53 TAM #  $44 BSR rel8
  $73 TII  $C3 TDD  $D3 TIN  $E3 TIA  $F3 TAI   source, destination, length (three 16-bit words, low byte first)
  $83 TST #,zp  $A3 TST #,zp,X  $93 TST #,abs  $B3 TST #,abs,X  (opcode, immediate, address)

  KNOWN: TST is NOT generated: asl drops the last byte of the instruction (TST #$45,$56 -> 83 45, TST #$45,$5678
  -> 93 45 78) and tests/t_huc6280.ori asserts that (proposed/C14/huc6280-tst-truncated.md).
  TMA reads one mapping register: only masks with exactly one bit set are generated (several bits: undefined).
  Block transfer length 0 means 65536 bytes on the chip; it is generated as the literal 0.
  AS models a 2 Mbyte physical address space for this CPU (ASSUME MPRn): addresses above $FFFF are not generated
  and not expected to be rejected, except for the block transfer operands (16-bit words, range-checked).
"""
from .common import Form, Int, Enum, Rel, Isa, sx
from . import mos65
from .m6809 import Wrap16

IMM = lambda: Int(-128, 255)
IMM16 = lambda: Int(-32768, 65535)
ZP = lambda: Int(0, 255, rej_lo=False)                    # no absolute alternative: 256 must be rejected
ZPA = lambda: Int(0, 255, rej_lo=False, rej_hi=False)     # 256 is the absolute form
ABS = lambda: Int(0, 65535, rej_lo=False)                 # absolute-only instruction
ABSA = lambda: Int(256, 65535, rej_lo=False)              # absolute form of an instruction that has a base-page form

_b1, _b2, _b3 = mos65._b1, mos65._b2, mos65._b3


def build_ce02():
    # (zp) became (bp),Z; a branch without size prefix is sized by the assembler (short when the target is in reach,
    # else word-relative): only the explicitly short spelling '<target' is generated
    forms = [f for f in mos65.build(True)
             if not f.name.endswith(" (zp)") and not (f.name.endswith(" rel") and len(f.ops) == 1)]
    A = forms.append
    for m, op in (("CLE", 0x02), ("SEE", 0x03), ("TSY", 0x0B), ("TYS", 0x2B), ("INZ", 0x1B), ("DEZ", 0x3B),
                  ("TAZ", 0x4B), ("TZA", 0x6B), ("TAB", 0x5B), ("TBA", 0x7B), ("PHZ", 0xDB), ("PLZ", 0xFB)):
        A(Form(m, m, [], _b1(op)))
    A(Form("NEG A", "NEG a", [], _b1(0x42)))
    A(Form("ASR A", "ASR a", [], _b1(0x43)))
    A(Form("ASR zp", "ASR {0}", [ZP()], _b2(0x44)))
    A(Form("ASR zp,X", "ASR {0},x", [ZP()], _b2(0x54)))
    for m, op in mos65.C_ZPIND.items():
        A(Form(m + " (zp),Z", m + " ({0}),z", [ZP()], _b2(op)))
    A(Form("STA (d,SP),Y", "STA ({0},sp),y", [ZP()], _b2(0x82)))
    A(Form("LDA (d,SP),Y", "LDA ({0},sp),y", [ZP()], _b2(0xE2)))
    A(Form("LDZ #imm", "LDZ #{0}", [IMM()], _b2(0xA3)))
    A(Form("LDZ abs", "LDZ {0}", [ABS()], _b3(0xAB)))
    A(Form("LDZ abs,X", "LDZ {0},x", [ABS()], _b3(0xBB)))
    A(Form("CPZ #imm", "CPZ #{0}", [IMM()], _b2(0xC2)))
    A(Form("CPZ zp", "CPZ {0}", [ZPA()], _b2(0xD4)))
    A(Form("CPZ abs", "CPZ {0}", [ABSA()], _b3(0xDC)))
    # the base table gives STY zp,X / STX zp,Y rejecting 256: here 256 is the new absolute form
    for i, f in enumerate(forms):
        if f.name in ("STY zp,X", "STX zp,Y"):
            forms[i] = Form(f.name, f.fmt, [ZPA()], f.enc)
    A(Form("STY abs,X", "STY {0},x", [ABSA()], _b3(0x8B)))
    A(Form("STX abs,Y", "STX {0},y", [ABSA()], _b3(0x9B)))
    A(Form("JSR (abs)", "JSR ({0})", [ABS()], _b3(0x22)))
    A(Form("JSR (abs,X)", "JSR ({0},x)", [ABS()], _b3(0x23)))
    A(Form("RTN #imm", "RTN #{0}", [IMM()], _b2(0x62)))
    A(Form("DEW zp", "DEW {0}", [ZP()], _b2(0xC3)))
    A(Form("INW zp", "INW {0}", [ZP()], _b2(0xE3)))
    A(Form("ASW abs", "ASW {0}", [ABS()], _b3(0xCB)))
    A(Form("ROW abs", "ROW {0}", [ABS()], _b3(0xEB)))
    A(Form("PHW #imm16", "PHW #{0}", [IMM16()], _b3(0xF4)))
    A(Form("PHW abs", "PHW {0}", [ABS()], _b3(0xFC)))
    A(Form("AUG", "AUG", [], lambda pc, v: bytes([0x5C, 0, 0, 0]), dontcare=b"\x00\xff\xff\xff"))
    # explicit short form of the branches ('<' as in tests/t_65ce02)
    for m, op in list(mos65.BRANCH.items()) + [("BRA", 0x80)]:
        A(Form(m + " <rel8", m + " <{0}", [Rel(-128, 127, 2)], mos65._rel(op), rel=(0, lambda b: sx(b[1], 8))))
    return forms


# KNOWN: see the module comment - kept for reference, not part of the generated forms
def _word_relative_forms():
    out = []
    long_ops = {"BPL": 0x13, "BMI": 0x33, "BVC": 0x53, "BVS": 0x73, "BRA": 0x83, "BCC": 0x93, "BCS": 0xB3,
                "BNE": 0xD3, "BEQ": 0xF3, "BSR": 0x63}
    for m, op in long_ops.items():
        out.append(Form(m + " >rel16", m + " >{0}", [Wrap16(2)],
                        (lambda o: lambda pc, v: bytes([o, v[0] & 0xff, (v[0] >> 8) & 0xff]))(op),
                        rel=(0, lambda b: sx(b[1] | b[2] << 8, 16))))
    return out


def build_huc():
    forms = mos65.build(True)
    # AS gives the HuC6280 a 2 Mbyte address space (physical addresses, translated through the mapping registers set
    # by ASSUME MPRn): an address above $FFFF is not out of range for it.  Only logical addresses 0..$FFFF are
    # generated; beyond a zero-page field only 256 / 257 are taken as must-be-rejected values
    for f in forms:
        for o in f.ops:
            if o.kind == "int" and o.lo >= 0:
                if o.hi == 65535:
                    o.rej_hi = False
                elif o.hi == 255:
                    o.far = False
    A = forms.append
    for m, op in (("SXY", 0x02), ("SAX", 0x22), ("SAY", 0x42), ("CLA", 0x62), ("CLX", 0x82), ("CLY", 0xC2),
                  ("CSL", 0x54), ("CSH", 0xD4), ("SET", 0xF4)):
        A(Form(m, m, [], _b1(op)))
    for m, op in (("ST0", 0x03), ("ST1", 0x13), ("ST2", 0x23)):
        A(Form(m + " #imm", m + " #{0}", [IMM()], _b2(op)))
    A(Form("TAM #mask", "TAM #{0}", [Int(0, 255, rej_lo=False)], _b2(0x53)))
    masks = [1 << i for i in range(8)]
    A(Form("TMA #mask", "TMA #{0}", [Enum(["$%02X" % x for x in masks])], lambda pc, v: bytes([0x43, masks[v[0]]])))
    A(Form("BSR rel", "BSR {0}", [Rel(-128, 127, 2)], mos65._rel(0x44), rel=(0, lambda b: sx(b[1], 8))))
    for m, op in (("TII", 0x73), ("TDD", 0xC3), ("TIN", 0xD3), ("TIA", 0xE3), ("TAI", 0xF3)):
        A(Form(m + " src,dst,len", m + " {0},{1},{2}", [ABS(), ABS(), ABS()],
               (lambda o: lambda pc, v: bytes([o, v[0] & 0xff, v[0] >> 8 & 0xff, v[1] & 0xff, v[1] >> 8 & 0xff,
                                               v[2] & 0xff, v[2] >> 8 & 0xff]))(op)))
    return forms


# KNOWN: see the module comment - kept for reference, not part of the generated forms
def _tst_forms():
    return [
        Form("TST #imm,zp", "TST #{0},{1}", [IMM(), ZPA()], lambda pc, v: bytes([0x83, v[0] & 0xff, v[1]])),
        Form("TST #imm,zp,X", "TST #{0},{1},x", [IMM(), ZPA()], lambda pc, v: bytes([0xA3, v[0] & 0xff, v[1]])),
        Form("TST #imm,abs", "TST #{0},{1}", [IMM(), ABSA()],
             lambda pc, v: bytes([0x93, v[0] & 0xff, v[1] & 0xff, v[1] >> 8])),
        Form("TST #imm,abs,X", "TST #{0},{1},x", [IMM(), ABSA()],
             lambda pc, v: bytes([0xB3, v[0] & 0xff, v[1] & 0xff, v[1] >> 8])),
    ]


ISAS = [
    Isa("65CE02", "65CE02", build_ce02(), "mot", pcsym="*", slot=8, base=0x1000, offsets=[0, 1, 4],
        # the last lines of t_65ce02 run with ASSUME B:$80: address $34 is not in the base page there
        golden=[("t_65ce02", {"65ce02": True})], golden_ignore=["lda $34"]),
    Isa("HUC6280", "HUC6280", build_huc(), "mot", pcsym="*", slot=8, base=0x1000, offsets=[0, 1],
        # seven-byte instructions: the cross-check's listing reader keeps the first six bytes only
        golden=[("t_huc6280", {"huc6280": True})],
        golden_ignore=[m + " $4567,$5678,$6789" for m in ("tai", "tdd", "tia", "tii", "tin")]),
]
