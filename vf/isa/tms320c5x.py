"""Texas Instruments TMS320C5x (and its TMS320C2xx subset) reference encoder - TMS320C5x User's Guide
(SPRU056), chapter "Assembly language instructions": instruction set summary / opcode table and the individual
instruction descriptions; TMS320C2xx User's Guide (SPRU018) for the membership of the C2xx subset (the C2xx
opcodes are those of the C5x).  Written from TI's definition, not from code3205x.c.

Memory reference part (low byte of the instruction word) - as on the TMS320C2x:
    0 ddddddd          direct: the 7 low bits of the data memory address (the page comes from DP)
    1 mmm n yyy        indirect through AR(ARP);  mmm: 000 *   001 *-   010 *+   100 *BR0-   101 *0-
                       110 *0+   111 *BR0+ (011 reserved);  n = 1: load ARP with yyy afterwards
Opcode map (bits 15..8 unless a full word is given):
    00-07 LAR ARx,m   08 LAMM   09 SMMR   0A SUBC   0B RPT m   0C OUT   0D LDP m   0E LST #0   0F LST #1
    1s LACC m,s       2s ADD m,s          3s SUB m,s           4b BIT m,b
    50 MPYA 51 MPYS 52 SQRA 53 SQRS 54 MPY 55 MPYU 57 BLDP 58 XPL 59 OPL 5A APL 5B CPL (DBMR)
    5C XPL #lk 5D OPL #lk 5E APL #lk 5F CPL #lk
    60 ADDC 61 ADD m,16 62 ADDS 63 ADDT 64 SUBB 65 SUB m,16 66 SUBS 67 SUBT 68 ZALR 69 LACL 6A LACC m,16 6B LACT
    6C XOR 6D OR 6E AND 6F BITT
    70 LTA 71 LTP 72 LTD 73 LT 74 LTS 75 LPH 76 PSHD 77 DMOV 78 ADRK #k 79 B 7A CALL 7B BANZ 7C SBRK #k
    7D BD 7E CALLD 7F BANZD
    80-87 SAR ARx,m  88 SAMM 89 LMMR 8A POPD 8B MAR 8C SPL 8D SPH 8E SST #0 8F SST #1   90-97 SACL m,s  98-9F SACH m,s
    A0 NORM A2 MAC A3 MACD A4 BLPD BMAR A5 BLPD #pma A6 TBLR A7 TBLW A8 BLDD #lk,m A9 BLDD m,#lk AA MADS AB MADD
    AC BLDD BMAR,m  AD BLDD m,BMAR  AE SPLK  AF IN
    B0-B7 LAR ARx,#k  B8 ADD #k  B9 LACL #k  BA SUB #k  BB RPT #k  BC/BD LDP #k9   C000-DFFF MPY #k13
    BExx: accumulator / control instructions without operand, BE4x status bits, BE6k INTR k, BE80 MPY #lk,
          BE81/82/83 AND/OR/XOR #lk,16, BEC4 RPT #lk, BEC5 RPTZ #lk, BEC6 RPTB pma
    BF0p SPM p   BF08-0F LAR ARx,#lk   BF44-47 CMPR   BF8s LACC #lk,s  BF9s ADD  BFAs SUB  BFBs AND  BFCs OR
    BFDs XOR #lk,s   BFEs BSAR s+1
    conditional:  111d ooTP ZLVC ZLVC   oo: 00 BCND 01 XC 10 CC 11 RETC; d: delayed (XC: n = 2)
         TP: 00 BIO  01 TC  10 NTC  11 none;  ZLVC value / ZLVC mask:  EQ 8/8 NEQ 0/8 LT 4/4 LEQ C/C GT 0/4 GEQ 8/C
         OV 2/2 NOV 0/2  C 1/1 NC 0/1;  several conditions are combined by OR of their fields; UNC = TP 11, 00
         RET = RETC UNC = EF00, RETD = FF00
CODE addresses are word addresses; words are stored least significant byte first in the code file.

Short / long immediate forms (TI: the assembler takes the short form when the constant fits and no shift is
written): ADD/SUB #k 0..255 -> B8kk/BAkk, otherwise #lk -> BF9s/BFAs + word; LAR ARx,#k 0..255 -> Bxkk, else BF0x +
word; RPT #k 0..255 -> BBkk, else BEC4 + word; MPY #k -4096..4095 -> 110k..., else BE80 + word.

Excluded by construction:
  * direct addresses above 127: TI's instruction holds only the low 7 bits, how a full data address is written
    for AS is not documented; addresses >= 65536 (outside the data space) must be rejected
  * ADD/SUB #k with an explicit shift 0 and k in 0..255 (short or long form: not decided by TI's syntax)
  * negative addresses, negative values of unsigned long immediates where TI defines the constant as unsigned
  * NORM without operand, the reserved modification 011, the spellings *AR0+ / *AR0- (not TI's)
  * KNOWN: BANZ / BANZD without modification operand (TI: default *-; AS and the golden test t_3205x: *), see
    proposed/C14/320c5x-banz-default-modification.md
  * LAMM/SAMM/LMMR/SMMR: as for all direct operands only 0..127 is generated (AS rejects 128.. there)
  * combinations of conditions other than (one of EQ..GEQ) [, OV|NOV] [, C|NC] [, TC|NTC|BIO]; illegal combinations
  * TI's predefined port symbols PA0..PA15, memory-mapped register names
"""
from .common import Form, Int, Enum, Isa, words
from .tms320c25 import AR_NAMES

# spelling: modification code (bits 6..4) - TI's seven spellings only
IND_MODES = [("*", 0), ("*-", 1), ("*+", 2), ("*BR0-", 4), ("*0-", 5), ("*0+", 6), ("*BR0+", 7)]
IND_NAMES = [n for n, _ in IND_MODES]
IND_CODE = [c for _, c in IND_MODES]


def ind(mode, arp=None):
    return 0x80 | IND_CODE[mode] << 4 | (0 if arp is None else 0x08 | arp)




class Dma(Int):
    """7-bit direct address.  The golden cross-check (selftest) reads the indirect operand `*` as the program counter
    symbol; a value equal to the pc is therefore never a direct address (the check places instructions at >= 100h)."""

    def classify(self, v, pc=0, vals=None):
        if v == pc and pc:
            return "excl"
        return Int.classify(self, v, pc, vals)


DMA = lambda: Dma(0, 127, rej_lo=False, rej_from=65536)
ADDR16 = lambda: Int(0, 65535, rej_lo=False)
K8 = lambda: Int(0, 255)
K16 = lambda: Int(-32768, 65535)
K16U = lambda: Int(0, 65535, rej_lo=False)
ARN = lambda: Int(0, 7)
SH15 = lambda: Int(0, 15)
SH16 = lambda: Int(0, 16)
SH7 = lambda: Int(0, 7)

# plain memory reference instructions: opcode in the high byte; True = also in the C2xx subset
MEM = {"LAMM": (0x08, False), "SUBC": (0x0A, True), "RPT": (0x0B, True), "LDP": (0x0D, True),
       "MPYA": (0x50, True), "MPYS": (0x51, True), "SQRA": (0x52, True), "SQRS": (0x53, True), "MPY": (0x54, True),
       "MPYU": (0x55, True), "BLDP": (0x57, False), "XPL": (0x58, False), "OPL": (0x59, False), "APL": (0x5A, False),
       "CPL": (0x5B, False),
       "ADDC": (0x60, True), "ADDS": (0x62, True), "ADDT": (0x63, True), "SUBB": (0x64, True), "SUBS": (0x66, True),
       "SUBT": (0x67, True), "ZALR": (0x68, True), "LACL": (0x69, True), "LACT": (0x6B, True), "XOR": (0x6C, True),
       "OR": (0x6D, True), "AND": (0x6E, True), "BITT": (0x6F, True),
       "LTA": (0x70, True), "LTP": (0x71, True), "LTD": (0x72, True), "LT": (0x73, True), "LTS": (0x74, True),
       "LPH": (0x75, True), "PSHD": (0x76, True), "DMOV": (0x77, True),
       "SAMM": (0x88, False), "POPD": (0x8A, True), "MAR": (0x8B, True), "SPL": (0x8C, True), "SPH": (0x8D, True),
       "TBLR": (0xA6, True), "TBLW": (0xA7, True), "MADS": (0xAA, False), "MADD": (0xAB, False)}
# fixed text before the memory operand
MEMLEAD = {"LST #0,": (0x0E, True), "LST #1,": (0x0F, True), "SST #0,": (0x8E, True), "SST #1,": (0x8F, True),
           "BLDD BMAR,": (0xAC, False), "BLPD BMAR,": (0xA4, False)}
# shift 0..15 in bits 11..8, shift 16 = separate opcode
SHIFT16 = {"LACC": (0x10, 0x6A), "ADD": (0x20, 0x61), "SUB": (0x30, 0x65)}
FIXED = {"ABS": (0xBE00, True), "CMPL": (0xBE01, True), "NEG": (0xBE02, True), "PAC": (0xBE03, True),
         "APAC": (0xBE04, True), "SPAC": (0xBE05, True), "SFL": (0xBE09, True), "SFR": (0xBE0A, True),
         "ROL": (0xBE0C, True), "ROR": (0xBE0D, True),
         "ADDB": (0xBE10, False), "ADCB": (0xBE11, False), "ANDB": (0xBE12, False), "ORB": (0xBE13, False),
         "ROLB": (0xBE14, False), "RORB": (0xBE15, False), "SFLB": (0xBE16, False), "SFRB": (0xBE17, False),
         "SBB": (0xBE18, False), "SBBB": (0xBE19, False), "XORB": (0xBE1A, False), "CRGT": (0xBE1B, False),
         "CRLT": (0xBE1C, False), "EXAR": (0xBE1D, False), "SACB": (0xBE1E, False), "LACB": (0xBE1F, False),
         "BACC": (0xBE20, True), "BACCD": (0xBE21, False), "IDLE": (0xBE22, True), "IDLE2": (0xBE23, False),
         "CALA": (0xBE30, True), "POP": (0xBE32, True), "RETI": (0xBE38, False), "RETE": (0xBE3A, False),
         "PUSH": (0xBE3C, True), "CALAD": (0xBE3D, False),
         "TRAP": (0xBE51, True), "NMI": (0xBE52, True), "ZPR": (0xBE58, False), "ZAP": (0xBE59, False),
         "SATH": (0xBE5A, False), "SATL": (0xBE5B, False),
         "NOP": (0x8B00, True), "RET": (0xEF00, True), "RETD": (0xFF00, False)}
# status bits: CLRC = even, SETC = odd
STBITS = {"INTM": 0xBE40, "OVM": 0xBE42, "CNF": 0xBE44, "SXM": 0xBE46, "HM": 0xBE48, "TC": 0xBE4A, "XF": 0xBE4C,
          "C": 0xBE4E}
BRANCH = {"B": (0x79, True), "CALL": (0x7A, True), "BANZ": (0x7B, True), "BD": (0x7D, False), "CALLD": (0x7E, False),
          "BANZD": (0x7F, False)}
# long immediate with shift 0..15 (BFxs) and, for the logical ones, shift 16 (BE8x)
LONGIMM = {"LACC": (0xBF80, None), "ADD": (0xBF90, None), "SUB": (0xBFA0, None), "AND": (0xBFB0, 0xBE81),
           "OR": (0xBFC0, 0xBE82), "XOR": (0xBFD0, 0xBE83)}

# conditions: (TP, ZLVC value, ZLVC mask); TP None = not selected
ZL = {"EQ": (8, 8), "NEQ": (0, 8), "LT": (4, 4), "LEQ": (0xC, 0xC), "GT": (0, 4), "GEQ": (8, 0xC)}
VV = {"OV": (2, 2), "NOV": (0, 2)}
CC = {"C": (1, 1), "NC": (0, 1)}
TP = {"BIO": 0, "TC": 1, "NTC": 2}
COND = {"BCND": (0xE000, True), "BCNDD": (0xF000, False), "CC": (0xE800, True), "CCD": (0xF800, False),
        "RETC": (0xEC00, True), "RETCD": (0xFC00, False)}


def condfield(names):
    tp, val, mask = 3, 0, 0
    for n in names:
        if n == "UNC":
            continue
        if n in TP:
            tp = TP[n]
        else:
            v, m = (ZL.get(n) or VV.get(n) or CC.get(n))
            val |= v
            mask |= m
    return tp << 8 | val << 4 | mask


ZL_N, VV_N, CC_N, TP_N = list(ZL), list(VV), list(CC), list(TP)
ALL_N = ZL_N + VV_N + CC_N + TP_N + ["UNC"]
# operand lists of the condition forms: single condition; documented combinations in TI's order of groups
CONDSETS = [("c", [ALL_N]), ("zl,v", [ZL_N, VV_N]), ("zl,c", [ZL_N, CC_N]), ("zl,tp", [ZL_N, TP_N]),
            ("v,c", [VV_N, CC_N]), ("v,tp", [VV_N, TP_N]), ("c,tp", [CC_N, TP_N]),
            ("zl,v,c", [ZL_N, VV_N, CC_N]), ("zl,v,c,tp", [ZL_N, VV_N, CC_N, TP_N])]


def build(c2xx=False):
    F = []

    def add(name, fmt, ops, enc):
        F.append(Form(name, fmt, ops, enc))

    def mem(name, fmt, ops, hi, tail=None, arp=True, sub=True):
        """direct / indirect / indirect + next ARP variants.  fmt contains {M} for the memory operand (the last
        operands of the form: memory operand, next ARP); hi(vals) -> bits 15..8, tail(vals) -> further words"""
        if c2xx and not sub:
            return
        ops = list(ops)
        n = len(ops)
        tl = tail or (lambda v: ())
        f = fmt.replace("{M}", "{%d}" % n)

        def enc(ea):
            return lambda pc, v: words(hi(v) << 8 | ea(v), *tl(v))

        add(name.replace("{M}", "dma"), f, ops + [DMA()], enc(lambda v: v[n] & 0x7f))
        add(name.replace("{M}", "ind"), f, ops + [Enum(IND_NAMES)], enc(lambda v: ind(v[n])))
        if arp:
            for what, op in (("ARn", lambda: Enum(AR_NAMES)), ("n", ARN)):
                add(name.replace("{M}", "ind") + "," + what, f + ",{%d}" % (n + 1), ops + [Enum(IND_NAMES), op()],
                    enc(lambda v: ind(v[n], v[n + 1])))

    def fix(name, fmt, ops, enc, sub=True):
        if c2xx and not sub:
            return
        add(name, fmt, ops, enc)

    const = lambda o: (lambda v: o)

    for m, (w, sub) in FIXED.items():
        fix(m, m, [], (lambda o: lambda pc, v: words(o))(w), sub)
    for b, w in STBITS.items():
        if c2xx and b == "HM":
            continue
        add("CLRC " + b, "CLRC " + b, [], (lambda o: lambda pc, v: words(o))(w))
        add("SETC " + b, "SETC " + b, [], (lambda o: lambda pc, v: words(o))(w | 1))
    for m, (op, sub) in MEM.items():
        mem(m + " {M}", m + " {M}", [], const(op), sub=sub)
    for m, (op, sub) in MEMLEAD.items():
        mem(m + "{M}", m + "{M}", [], const(op), sub=sub)
    for m, (op, op16) in SHIFT16.items():
        # shift omitted = 0; the next ARP can only be written after a shift (TI: ADD {ind}[,shift[,ARn]])
        mem(m + " {M}", m + " {M}", [], const(op), arp=False)
        # shift is operand 1 here (operand 0 = memory operand): built by hand
        for what, mop, ea in (("dma", DMA, lambda v: v[0] & 0x7f), ("ind", lambda: Enum(IND_NAMES), lambda v: ind(v[0]))):
            add("%s %s,shift" % (m, what), m + " {0},{1}", [mop(), SH16()],
                (lambda o, o16, e: lambda pc, v: words((o16 if v[1] == 16 else o | v[1]) << 8 | e(v)))(op, op16, ea))
        for what, aop in (("ARn", lambda: Enum(AR_NAMES)), ("n", ARN)):
            add("%s ind,shift,%s" % (m, what), m + " {0},{1},{2}", [Enum(IND_NAMES), SH16(), aop()],
                (lambda o, o16: lambda pc, v: words((o16 if v[1] == 16 else o | v[1]) << 8 | ind(v[0], v[2])))(op, op16))
    for m, op in (("SACL", 0x90), ("SACH", 0x98)):
        mem(m + " {M}", m + " {M}", [], const(op), arp=False)
        for what, mop, ea in (("dma", DMA, lambda v: v[0] & 0x7f), ("ind", lambda: Enum(IND_NAMES), lambda v: ind(v[0]))):
            add("%s %s,shift" % (m, what), m + " {0},{1}", [mop(), SH7()],
                (lambda o, e: lambda pc, v: words((o | v[1]) << 8 | e(v)))(op, ea))
        for what, aop in (("ARn", lambda: Enum(AR_NAMES)), ("n", ARN)):
            add("%s ind,shift,%s" % (m, what), m + " {0},{1},{2}", [Enum(IND_NAMES), SH7(), aop()],
                (lambda o: lambda pc, v: words((o | v[1]) << 8 | ind(v[0], v[2])))(op))
    # BIT m,bit / IN m,PA / OUT m,PA / LMMR m,#lk / SMMR m,#lk / BLDD m,#lk / BLDD m,BMAR: memory operand first
    def memfirst(m, rest, restops, hi, tail=None, sub=True):
        if c2xx and not sub:
            return
        restops = list(restops)
        k = len(restops)
        tl = tail or (lambda v: ())
        fmt = m + " {0}" + rest
        nm = m + " %s" + rest.replace("{1}", "x")
        for what, mop, ea in (("dma", DMA, lambda v: v[0] & 0x7f), ("ind", lambda: Enum(IND_NAMES), lambda v: ind(v[0]))):
            add(nm % what, fmt, [mop()] + restops,
                (lambda e: lambda pc, v: words(hi(v) << 8 | e(v), *tl(v)))(ea))
        for what, aop in (("ARn", lambda: Enum(AR_NAMES)), ("n", ARN)):
            add((nm % "ind") + "," + what, fmt + ",{%d}" % (k + 1), [Enum(IND_NAMES)] + restops + [aop()],
                lambda pc, v: words(hi(v) << 8 | ind(v[0], v[k + 1]), *tl(v)))

    memfirst("BIT", ",{1}", [SH15()], lambda v: 0x40 | v[1])
    memfirst("IN", ",{1}", [ADDR16()], const(0xAF), tail=lambda v: (v[1],))
    memfirst("OUT", ",{1}", [ADDR16()], const(0x0C), tail=lambda v: (v[1],))
    memfirst("LMMR", ",#{1}", [K16U()], const(0x89), tail=lambda v: (v[1],), sub=False)
    memfirst("SMMR", ",#{1}", [K16U()], const(0x09), tail=lambda v: (v[1],), sub=False)
    memfirst("BLDD", ",#{1}", [K16U()], const(0xA9), tail=lambda v: (v[1],))
    memfirst("BLDD", ",BMAR", [], const(0xAD), sub=False)
    # operand before the memory operand
    mem("BLDD #lk,{M}", "BLDD #{0},{M}", [K16U()], const(0xA8), tail=lambda v: (v[0],))
    mem("BLPD #pma,{M}", "BLPD #{0},{M}", [ADDR16()], const(0xA5), tail=lambda v: (v[0],))
    mem("MAC pma,{M}", "MAC {0},{M}", [ADDR16()], const(0xA2), tail=lambda v: (v[0],))
    mem("MACD pma,{M}", "MACD {0},{M}", [ADDR16()], const(0xA3), tail=lambda v: (v[0],))
    mem("SPLK #lk,{M}", "SPLK #{0},{M}", [K16()], const(0xAE), tail=lambda v: (v[0],))
    for m, op in (("XPL", 0x5C), ("OPL", 0x5D), ("APL", 0x5E), ("CPL", 0x5F)):
        mem(m + " #lk,{M}", m + " #{0},{M}", [K16()], const(op), tail=lambda v: (v[0],), sub=False)
    for m, op in (("LAR", 0x00), ("SAR", 0x80)):
        mem(m + " ARn,{M}", m + " {0},{M}", [Enum(AR_NAMES)], (lambda o: lambda v: o | v[0])(op))
        # TI: ARn are predefined symbols for the numbers 0..7
        mem(m + " n,{M}", m + " {0},{M}", [ARN()], (lambda o: lambda v: o | v[0])(op), arp=False)
    # NORM: indirect only
    add("NORM ind", "NORM {0}", [Enum(IND_NAMES)], lambda pc, v: words(0xA000 | ind(v[0])))
    add("NORM ind,ARn", "NORM {0},{1}", [Enum(IND_NAMES), Enum(AR_NAMES)], lambda pc, v: words(0xA000 | ind(v[0], v[1])))

    # immediates
    for m, w in (("ADRK", 0x7800), ("SBRK", 0x7C00), ("LACL", 0xB900)):
        add(m + " #k", m + " #{0}", [K8()], (lambda o: lambda pc, v: words(o | v[0]))(w))
    for m, w, lw in (("ADD", 0xB800, 0xBF90), ("SUB", 0xBA00, 0xBFA0)):
        add(m + " #k", m + " #{0}", [Int(0, 255, rej_lo=False, rej_hi=False)], (lambda o: lambda pc, v: words(o | v[0]))(w))
        add(m + " #lk", m + " #{0}", [Int(256, 65535, rej_lo=False)], (lambda o: lambda pc, v: words(o, v[0]))(lw))
        add(m + " #-lk", m + " #{0}", [Int(-32768, -1, rej_hi=False)], (lambda o: lambda pc, v: words(o, v[0]))(lw))
        add(m + " #lk,0", m + " #{0},0", [Int(256, 65535, rej_lo=False)], (lambda o: lambda pc, v: words(o, v[0]))(lw))
        add(m + " #lk,shift", m + " #{0},{1}", [K16(), Int(1, 15, rej_lo=False)],
            (lambda o: lambda pc, v: words(o | v[1], v[0]))(lw))
    for m, (lw, w16) in LONGIMM.items():
        if m in ("ADD", "SUB"):
            continue
        # LACC: -32768 <= lk <= 32767 or unsigned; the logical instructions: a 16-bit pattern (negative not generated)
        kop = K16 if m == "LACC" else K16U
        add(m + " #lk", m + " #{0}", [kop()], (lambda o: lambda pc, v: words(o, v[0]))(lw))
        if w16 is None:
            add(m + " #lk,shift", m + " #{0},{1}", [kop(), SH15()], (lambda o: lambda pc, v: words(o | v[1], v[0]))(lw))
        else:
            add(m + " #lk,shift", m + " #{0},{1}", [kop(), SH16()],
                (lambda o, o16: lambda pc, v: words(o16 if v[1] == 16 else o | v[1], v[0]))(lw, w16))
    add("LAR ARn,#k", "LAR {0},#{1}", [Enum(AR_NAMES), Int(0, 255, rej_lo=False, rej_hi=False)],
        lambda pc, v: words(0xB000 | v[0] << 8 | v[1]))
    add("LAR ARn,#lk", "LAR {0},#{1}", [Enum(AR_NAMES), Int(256, 65535, rej_lo=False)],
        lambda pc, v: words(0xBF08 | v[0], v[1]))
    add("LAR n,#k", "LAR {0},#{1}", [ARN(), Int(0, 255, rej_lo=False, rej_hi=False)],
        lambda pc, v: words(0xB000 | v[0] << 8 | v[1]))
    add("LAR n,#lk", "LAR {0},#{1}", [ARN(), Int(256, 65535, rej_lo=False)],
        lambda pc, v: words(0xBF08 | v[0], v[1]))
    add("LDP #k", "LDP #{0}", [Int(0, 511)], lambda pc, v: words(0xBC00 | v[0]))
    if not c2xx:
        add("MPY #k", "MPY #{0}", [Int(-4096, 4095, rej_lo=False, rej_hi=False)],
            lambda pc, v: words(0xC000 | v[0] & 0x1fff))
        add("MPY #lk", "MPY #{0}", [Int(4096, 32767, rej_lo=False, rej_hi=False, rej_from=65536)],
            lambda pc, v: words(0xBE80, v[0]))
        add("MPY #-lk", "MPY #{0}", [Int(-32768, -4097, rej_hi=False)], lambda pc, v: words(0xBE80, v[0]))
        add("RPT #k", "RPT #{0}", [Int(0, 255, rej_lo=False, rej_hi=False)], lambda pc, v: words(0xBB00 | v[0]))
        add("RPT #lk", "RPT #{0}", [Int(256, 65535, rej_lo=False)], lambda pc, v: words(0xBEC4, v[0]))
        add("RPTZ #lk", "RPTZ #{0}", [K16U()], lambda pc, v: words(0xBEC5, v[0]))
        add("RPTB pma", "RPTB {0}", [ADDR16()], lambda pc, v: words(0xBEC6, v[0]))
        add("BSAR k", "BSAR {0}", [Int(1, 16)], lambda pc, v: words(0xBFE0 | v[0] - 1))
        add("XC n,c", "XC {0},{1}", [Int(1, 2), Enum(ALL_N)],
            lambda pc, v: words(0xD400 + (v[0] << 12) | condfield([ALL_N[v[1]]])))
        for n, w in ((1, 0xE400), (2, 0xF400)):
            for tag, lists in CONDSETS:
                add("XC %d,%s" % (n, tag), "XC %d," % n + ",".join("{%d}" % i for i in range(len(lists))),
                    [Enum(l) for l in lists],
                    (lambda o, ls: lambda pc, v: words(o | condfield([l[x] for l, x in zip(ls, v)])))(w, lists))
    else:
        # C2xx: MPY #k only 13 bit, RPT #k only 8 bit
        add("MPY #k", "MPY #{0}", [Int(-4096, 4095)], lambda pc, v: words(0xC000 | v[0] & 0x1fff))
        add("RPT #k", "RPT #{0}", [K8()], lambda pc, v: words(0xBB00 | v[0]))
    add("SPM k", "SPM {0}", [Int(0, 3)], lambda pc, v: words(0xBF00 | v[0]))
    add("CMPR k", "CMPR {0}", [Int(0, 3)], lambda pc, v: words(0xBF44 | v[0]))
    add("INTR k", "INTR {0}", [Int(0, 31)], lambda pc, v: words(0xBE60 | v[0]))

    # branches with optional modification of the current AR
    for m, (op, sub) in BRANCH.items():
        if c2xx and not sub:
            continue
        if m.startswith("BANZ"):
            # KNOWN: TI: "the default modification to the current AR is a decrement by one" (*-, 7B90); AS assembles
            # `BANZ pma` without modification (7B80, a loop that never ends) and tests/t_3205x asserts it:
            # proposed/C14/320c5x-banz-default-modification.md.  Not generated.
            pass
        else:
            add(m + " pma", m + " {0}", [ADDR16()], (lambda o: lambda pc, v: words(o << 8 | 0x80, v[0]))(op))
        add(m + " pma,ind", m + " {0},{1}", [ADDR16(), Enum(IND_NAMES)],
            (lambda o: lambda pc, v: words(o << 8 | ind(v[1]), v[0]))(op))
        add(m + " pma,ind,ARn", m + " {0},{1},{2}", [ADDR16(), Enum(IND_NAMES), Enum(AR_NAMES)],
            (lambda o: lambda pc, v: words(o << 8 | ind(v[1], v[2]), v[0]))(op))
        add(m + " pma,ind,n", m + " {0},{1},{2}", [ADDR16(), Enum(IND_NAMES), ARN()],
            (lambda o: lambda pc, v: words(o << 8 | ind(v[1], v[2]), v[0]))(op))
    # conditional branch / call / return
    for m, (w, sub) in COND.items():
        if c2xx and not sub:
            continue
        for tag, lists in CONDSETS:
            k = len(lists)
            if m.startswith("RETC"):
                add("%s %s" % (m, tag), m + " " + ",".join("{%d}" % i for i in range(k)), [Enum(l) for l in lists],
                    (lambda o, ls: lambda pc, v: words(o | condfield([l[x] for l, x in zip(ls, v)])))(w, lists))
            else:
                add("%s pma,%s" % (m, tag), m + " {0}," + ",".join("{%d}" % (i + 1) for i in range(k)),
                    [ADDR16()] + [Enum(l) for l in lists],
                    (lambda o, ls: lambda pc, v: words(o | condfield([l[x] for l, x in zip(ls, v[1:])]), v[0]))(w, lists))
    return F


ISAS = [Isa("TMS320C50", "320C50", build(), "intel", pcsym="$", gran=2, slot=4, base=0x100, maxaddr=0xffff,
            golden=[("t_3205x", {"320c50": True, "320c203": True})]),
        Isa("TMS320C203", "320C203", build(c2xx=True), "intel", pcsym="$", gran=2, slot=4, base=0x100, maxaddr=0xffff,
            golden=[("t_3205x", {"320c203": True})])]
