"""National Semiconductor COP400 family (COP410L/411L, COP420/421/422, COP444L) reference encoder.

Source of truth: the "Instruction set" tables of National's COP410L/COP411L and COP420/COP421/COP422
(and COP444L/COP445L) data sheets - mnemonic, operand, hex code, machine-language code (binary) - and the
notes below those tables.  Written from that definition, not from codecop4.c.

  ASC 30   ADD 31   ADT 4A (420)   AISC y 5y (y = 1..15)   CASC 10 (420)   CLRA 00   COMP 40   NOP 44   RC 32
  SC 22   XOR 02
  JID FF   JMP a  0110 00aa aaaaaaaa (61 FF = JMP 1FFh)   JSR a  0110 10aa aaaaaaaa
  JP a   1aaaaaaa (pages 2,3 only)  or  11aaaaaa (all other pages)        JSRP a  10aaaaaa
  RET 48   RETSK 49   HALT 33 38 (444)   IT 33 39 (444)
  CAMQ 33 3C   CQMA 33 2C (420)   LD r  r5   LDD r,d  23 00rrdddd (420)   LQID BF
  RMB 0/1/2/3  4C 45 42 43   SMB 0/1/2/3  4D 47 46 4B   STII y 7y   X r  r6
  XAD r,d  23 10rrdddd (410: XAD 3,15 = 23 BF only)   XDS r  r7   XIS r  r4
  CAB 50   CBA 4E   LBI r,d  00rr(d-1) for d = 0, 9..15 - or 33 1rrdddd for any d (420)   LEI y 33 6y
  XABR 12 (420)
  SKC 20   SKE 21   SKGZ 33 21   SKGBZ 0/1/2/3  33 01 / 33 11 / 33 03 / 33 13   SKMBZ 0/1/2/3  01 11 03 13
  SKT 41 (420)
  ING 33 2A   ININ 33 28 (420)   INIL 33 29 (420)   INL 33 2E   OBD 33 3E   OGI y 33 5y (420)   OMG 33 3A
  XAS 4F

Notes of the data sheets that are modelled:
  - JP: "while in subroutine pages 2 or 3, to any ROM location within the two-page boundary of pages 2 or 3;
    otherwise within the current 64-word page.  JP may not jump to the last word of a page."  (The opcode
    would be JID = FF resp. LQID = BF.)
  - JSRP: "transfers program control to subroutine page 2.  A JSRP may not be used when in pages 2 or 3.
    JSRP may not jump to the last word in page 2."
  - LBI: single-byte form for d = 0, 9..15; the COP420 adds the two-byte form for the other values of d; the
    COP410L has the single-byte form only (d = 1..8 must be rejected there).
  - ROM: COP410L 512 words (9-bit JMP/JSR address), COP420 1024 words, COP444L 2048 words.

Layout: a page is determined by the address of the word following the JP (the program counter is
incremented before the jump is executed); the slots are laid out so that a JP never sits in the last word
of a page and a two-byte instruction never straddles a page.  The main tables visit pages 0, 1 and 4 ff.
(JP and JSRP come first so that the fixed cases see them in page 0); the tables "@080" lie in pages 2/3 and
hold the 7-bit JP.  The rejection of JSRP *located* in pages 2/3 is not modelled (no operand is at fault).
Not generated: negative addresses.
"""
from .common import Form, Int, Rel, Isa

R4 = lambda: Int(0, 3)
# 4-bit immediates: AS reads a negative y as 4-bit two's complement (AISC -1 = AISC 15); the data sheets only
# define y = 0..15, so negative values are not generated
Y4 = lambda: Int(0, 15, rej_lo=False)
D4 = lambda: Int(0, 15)     # digit select d of LDD/XAD


class AiscY(Int):
    """AISC y: y = 1..15; y = 0 has no encoding (50 is CAB) and must be rejected, negative y are not
    generated (see Y4)"""

    def __init__(self):
        Int.__init__(self, 1, 15, rej_lo=False)

    def classify(self, v, pc=0, vals=None):
        if v == 0:
            return "rej"
        return Int.classify(self, v, pc, vals)

    def boundary_rej(self):
        return Int.boundary_rej(self) + [0]

    def draw_rej(self, d):
        return 0 if d.int(0, 3) == 0 else Int.draw_rej(self, d)

RMB = [0x4C, 0x45, 0x42, 0x43]
SMB = [0x4D, 0x47, 0x46, 0x4B]
SKMBZ = [0x01, 0x11, 0x03, 0x13]

INH410 = {
    "NOP": [0x44], "ASC": [0x30], "ADD": [0x31], "CLRA": [0x00], "COMP": [0x40], "RC": [0x32], "SC": [0x22],
    "XOR": [0x02], "JID": [0xFF], "RET": [0x48], "RETSK": [0x49], "CAMQ": [0x33, 0x3C], "LQID": [0xBF],
    "CAB": [0x50], "CBA": [0x4E], "SKC": [0x20], "SKE": [0x21], "SKGZ": [0x33, 0x21], "ING": [0x33, 0x2A],
    "INL": [0x33, 0x2E], "OBD": [0x33, 0x3E], "OMG": [0x33, 0x3A], "XAS": [0x4F],
}
INH420 = {
    "ADT": [0x4A], "CASC": [0x10], "CQMA": [0x33, 0x2C], "XABR": [0x12], "SKT": [0x41], "ININ": [0x33, 0x28],
    "INIL": [0x33, 0x29],
}
INH444 = {"HALT": [0x33, 0x38], "IT": [0x33, 0x39]}


def in_sub(pc):
    """the word following pc lies in subroutine page 2 or 3"""
    return ((pc + 1) >> 6) in (2, 3)


class PageJP(Rel):
    """JP outside pages 2/3: value = offset inside the 64-word page of pc+1; the last word (63) of the page
    cannot be reached (the opcode is JID) and must be rejected like the neighbouring pages"""

    def __init__(self):
        Rel.__init__(self, 0, 62, 0, 1, band=6)

    def target(self, v, pc):
        return ((pc + 1) & ~0x3f) + v

    def from_target(self, t, pc):
        return t - ((pc + 1) & ~0x3f)

    def classify(self, v, pc=0, vals=None):
        if in_sub(pc) or (pc & 0x3f) == 0x3f:
            return "excl"
        return Rel.classify(self, v, pc, vals)


class SubJP(Rel):
    """JP inside pages 2/3: value = offset from 080h; 0BFh and 0FFh (last words of the two pages: the
    opcodes are LQID and JID) cannot be reached"""

    def __init__(self):
        Rel.__init__(self, 0, 126, 0, 1, band=6)

    def target(self, v, pc):
        return 0x80 + v

    def from_target(self, t, pc):
        return t - 0x80

    def classify(self, v, pc=0, vals=None):
        if not in_sub(pc):
            return "excl"
        if v == 63:
            return "rej"
        return Rel.classify(self, v, pc, vals)

    def boundary_ok(self):
        return [0, 1, 2, 61, 62, 64, 65, 124, 125, 126]

    def boundary_rej(self):
        return [127, 128, -1, -2, 63]

    def draw_ok(self, d):
        v = Rel.draw_ok(self, d)
        return 62 if v == 63 else v

    def draw_rej(self, d):
        return d.choice([126 + d.int(1, self.band), -d.int(1, self.band), 63])


class SubAddr(Int):
    """JSRP target 080h..0BEh, only from outside pages 2/3"""

    def __init__(self):
        Int.__init__(self, 0x80, 0xBE)

    def classify(self, v, pc=0, vals=None):
        if in_sub(pc):
            return "excl"
        return Int.classify(self, v, pc, vals)


def _fix(bs):
    return lambda pc, v: bytes(bs)


def build(cpu):
    """cpu: 410 | 420 | 444"""
    abits = {410: 9, 420: 10, 444: 11}[cpu]
    F = []
    # JP / JSRP first: the fixed cases then see them in page 0
    F.append(Form("JP a (page)", "JP {0}", [PageJP()], lambda pc, v: bytes([0xC0 | v[0]]),
                  rel=(0, lambda b: b[0] & 0x3f)))
    F.append(Form("JSRP a", "JSRP {0}", [SubAddr()], lambda pc, v: bytes([0x80 | (v[0] & 0x3f)])))
    inh = dict(INH410)
    if cpu >= 420:
        inh.update(INH420)
    if cpu >= 444:
        inh.update(INH444)
    for m, bs in inh.items():
        F.append(Form(m, m, [], _fix(bs)))

    F.append(Form("AISC y", "AISC {0}", [AiscY()], lambda pc, v: bytes([0x50 | v[0]])))
    F.append(Form("STII y", "STII {0}", [Y4()], lambda pc, v: bytes([0x70 | v[0]])))
    F.append(Form("LEI y", "LEI {0}", [Y4()], lambda pc, v: bytes([0x33, 0x60 | v[0]])))
    for m, low in (("LD", 5), ("X", 6), ("XDS", 7), ("XIS", 4)):
        F.append(Form(m + " r", m + " {0}", [R4()], (lambda low: lambda pc, v: bytes([v[0] << 4 | low]))(low)))
    for m, tab in (("RMB", RMB), ("SMB", SMB), ("SKMBZ", SKMBZ)):
        F.append(Form(m + " n", m + " {0}", [R4()], (lambda tab: lambda pc, v: bytes([tab[v[0]]]))(tab)))
    F.append(Form("SKGBZ n", "SKGBZ {0}", [R4()], lambda pc, v: bytes([0x33, SKMBZ[v[0]]])))

    amax = (1 << abits) - 1
    for m, op in (("JMP", 0x60), ("JSR", 0x68)):
        F.append(Form(m + " a", m + " {0}", [Int(0, amax, rej_lo=False, extra=[0x3F, 0x40, 0x7F, 0x80, 0xBF, 0xFF, 0x100])],
                      (lambda op: lambda pc, v: bytes([op | v[0] >> 8, v[0] & 0xff]))(op)))

    # LBI
    F.append(Form("LBI r,0", "LBI {0},0", [R4()], lambda pc, v: bytes([v[0] << 4 | 0x0F])))
    if cpu == 410:
        # d = 1..8 do not exist on the COP410L: 8, 7 (and 16, 17) must be rejected
        F.append(Form("LBI r,d", "LBI {0},{1}", [R4(), Int(9, 15, holes=(0,))], lambda pc, v: bytes([v[0] << 4 | (v[1] - 1)])))      # 0: the form above
        F.append(Form("XAD 3,15", "XAD 3,15", [], _fix([0x23, 0xBF])))
    else:
        # COP444L: eight data registers, the two-byte forms have a 3-bit r there; r = 4..7 is not generated
        # for the COP444 (and must be rejected for the COP420)
        R = (lambda: Int(0, 3, rej_hi=False)) if cpu == 444 else R4
        F.append(Form("LBI r,d", "LBI {0},{1}", [R4(), Int(9, 15, rej_lo=False)],
                      lambda pc, v: bytes([v[0] << 4 | (v[1] - 1)])))
        F.append(Form("LBI r,d (two bytes)", "LBI {0},{1}", [R(), Int(1, 8, rej_lo=False, rej_hi=False)],
                      lambda pc, v: bytes([0x33, 0x80 | v[0] << 4 | v[1]])))
        F.append(Form("XAD r,d", "XAD {0},{1}", [R(), D4()], lambda pc, v: bytes([0x23, 0x80 | v[0] << 4 | v[1]])))
        F.append(Form("LDD r,d", "LDD {0},{1}", [R(), D4()], lambda pc, v: bytes([0x23, v[0] << 4 | v[1]])))
        F.append(Form("OGI y", "OGI {0}", [Y4()], lambda pc, v: bytes([0x33, 0x50 | v[0]])))
    return F


def build_sub(cpu):
    F = [f for f in build(cpu) if f.name in ("NOP", "AISC y")]
    F.append(Form("JP a (pages 2,3)", "JP {0}", [SubJP()], lambda pc, v: bytes([0x80 | v[0]]),
                  rel=(0, lambda b: b[0] & 0x7f)))
    return F


ISAS = [
    # COP410L: 512 words; slots of two words fill pages 0..7 (250 slots)
    Isa("COP410", "COP410", build(410), "c", pcsym=".", slot=2, base=0, offsets=[0], maxaddr=0x1FF,
        golden=[("t_cop4", {"cop410": True})]),
    Isa("COP420", "COP420", build(420), "c", pcsym=".", slot=4, base=0, offsets=[0, 1, 2], maxaddr=0x3FF,
        golden=[("t_cop4", {"cop410": True, "cop420": True})]),
    Isa("COP444", "COP444", build(444), "c", pcsym=".", slot=4, base=0, offsets=[0, 1, 2], maxaddr=0x7FF,
        golden=[("t_cop4", {"cop410": True, "cop420": True, "cop444": True})]),
    # the subroutine pages 2 and 3 (080h..0FFh)
    Isa("COP410@080", "COP410", build_sub(410), "c", pcsym=".", slot=2, base=0x80, offsets=[0], maxaddr=0x1FF,
        maxitems=62),
    Isa("COP420@080", "COP420", build_sub(420), "c", pcsym=".", slot=4, base=0x80, offsets=[0, 1, 2], maxaddr=0x3FF,
        maxitems=31),
]
