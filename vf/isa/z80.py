"""Zilog Z80 reference encoder (Z80 CPU User's Manual UM0080, instruction-set tables), documented
instructions only, including the CB / DD / ED / FD prefixed groups and the IX/IY forms.
Written from Zilog's definition, not from codez80.c.
"""
from .common import Form, Int, Rel, Isa, sx

R = {"B": 0, "C": 1, "D": 2, "E": 3, "H": 4, "L": 5, "A": 7}
DD = ["BC", "DE", "HL", "SP"]
QQ = ["BC", "DE", "HL", "AF"]
CC = ["NZ", "Z", "NC", "C", "PO", "PE", "P", "M"]
XY = (("IX", 0xDD), ("IY", 0xFD))

N8 = lambda: Int(-128, 255)
N16 = lambda: Int(-32768, 65535)
A16 = lambda: Int(0, 65535, rej_lo=False)
P8 = lambda: Int(0, 255, rej_lo=False)
DISP = lambda: Int(-128, 127, plus=True)
BITN = lambda: Int(0, 7)


def fx(*bs):
    return lambda pc, v: bytes(bs)


def lo(x):
    return x & 0xff


def hi(x):
    return (x >> 8) & 0xff


def build():
    F = []

    def add(name, fmt, ops, enc, rel=None):
        F.append(Form(name, fmt, ops, enc, rel))

    # ---- 8 bit load group
    for dn, d in R.items():
        for sn, s in R.items():
            add("LD %s,%s" % (dn, sn), "LD %s,%s" % (dn, sn), [], fx(0x40 | d << 3 | s))
        add("LD %s,n" % dn, "LD %s,{0}" % dn, [N8()], (lambda o: lambda pc, v: bytes([o, lo(v[0])]))(0x06 | d << 3))
        add("LD %s,(HL)" % dn, "LD %s,(HL)" % dn, [], fx(0x46 | d << 3))
        add("LD (HL),%s" % dn, "LD (HL),%s" % dn, [], fx(0x70 | d))
        for xn, px in XY:
            add("LD %s,(%s+d)" % (dn, xn), "LD %s,(%s{0})" % (dn, xn), [DISP()],
                (lambda p, o: lambda pc, v: bytes([p, o, lo(v[0])]))(px, 0x46 | d << 3))
            add("LD (%s+d),%s" % (xn, dn), "LD (%s{0}),%s" % (xn, dn), [DISP()],
                (lambda p, o: lambda pc, v: bytes([p, o, lo(v[0])]))(px, 0x70 | d))
    add("LD (HL),n", "LD (HL),{0}", [N8()], lambda pc, v: bytes([0x36, lo(v[0])]))
    for xn, px in XY:
        add("LD (%s+d),n" % xn, "LD (%s{0}),{1}" % xn, [DISP(), N8()],
            (lambda p: lambda pc, v: bytes([p, 0x36, lo(v[0]), lo(v[1])]))(px))
    add("LD A,(BC)", "LD A,(BC)", [], fx(0x0A))
    add("LD A,(DE)", "LD A,(DE)", [], fx(0x1A))
    add("LD (BC),A", "LD (BC),A", [], fx(0x02))
    add("LD (DE),A", "LD (DE),A", [], fx(0x12))
    add("LD A,(nn)", "LD A,({0})", [A16()], lambda pc, v: bytes([0x3A, lo(v[0]), hi(v[0])]))
    add("LD (nn),A", "LD ({0}),A", [A16()], lambda pc, v: bytes([0x32, lo(v[0]), hi(v[0])]))
    add("LD A,I", "LD A,I", [], fx(0xED, 0x57))
    add("LD A,R", "LD A,R", [], fx(0xED, 0x5F))
    add("LD I,A", "LD I,A", [], fx(0xED, 0x47))
    add("LD R,A", "LD R,A", [], fx(0xED, 0x4F))

    # ---- 16 bit load group
    for i, dn in enumerate(DD):
        add("LD %s,nn" % dn, "LD %s,{0}" % dn, [N16()],
            (lambda o: lambda pc, v: bytes([o, lo(v[0]), hi(v[0])]))(0x01 | i << 4))
        if dn == "HL":
            add("LD HL,(nn)", "LD HL,({0})", [A16()], lambda pc, v: bytes([0x2A, lo(v[0]), hi(v[0])]))
            add("LD (nn),HL", "LD ({0}),HL", [A16()], lambda pc, v: bytes([0x22, lo(v[0]), hi(v[0])]))
        else:
            add("LD %s,(nn)" % dn, "LD %s,({0})" % dn, [A16()],
                (lambda o: lambda pc, v: bytes([0xED, o, lo(v[0]), hi(v[0])]))(0x4B | i << 4))
            add("LD (nn),%s" % dn, "LD ({0}),%s" % dn, [A16()],
                (lambda o: lambda pc, v: bytes([0xED, o, lo(v[0]), hi(v[0])]))(0x43 | i << 4))
    for xn, px in XY:
        add("LD %s,nn" % xn, "LD %s,{0}" % xn, [N16()], (lambda p: lambda pc, v: bytes([p, 0x21, lo(v[0]), hi(v[0])]))(px))
        add("LD %s,(nn)" % xn, "LD %s,({0})" % xn, [A16()], (lambda p: lambda pc, v: bytes([p, 0x2A, lo(v[0]), hi(v[0])]))(px))
        add("LD (nn),%s" % xn, "LD ({0}),%s" % xn, [A16()], (lambda p: lambda pc, v: bytes([p, 0x22, lo(v[0]), hi(v[0])]))(px))
        add("LD SP,%s" % xn, "LD SP,%s" % xn, [], fx(px, 0xF9))
        add("PUSH %s" % xn, "PUSH %s" % xn, [], fx(px, 0xE5))
        add("POP %s" % xn, "POP %s" % xn, [], fx(px, 0xE1))
        add("EX (SP),%s" % xn, "EX (SP),%s" % xn, [], fx(px, 0xE3))
        add("JP (%s)" % xn, "JP (%s)" % xn, [], fx(px, 0xE9))
        add("INC %s" % xn, "INC %s" % xn, [], fx(px, 0x23))
        add("DEC %s" % xn, "DEC %s" % xn, [], fx(px, 0x2B))
        for i, pn in enumerate(["BC", "DE", xn, "SP"]):
            add("ADD %s,%s" % (xn, pn), "ADD %s,%s" % (xn, pn), [], fx(px, 0x09 | i << 4))
    add("LD SP,HL", "LD SP,HL", [], fx(0xF9))
    for i, qn in enumerate(QQ):
        add("PUSH " + qn, "PUSH " + qn, [], fx(0xC5 | i << 4))
        add("POP " + qn, "POP " + qn, [], fx(0xC1 | i << 4))

    # ---- exchange, block transfer, search
    add("EX DE,HL", "EX DE,HL", [], fx(0xEB))
    add("EX AF,AF'", "EX AF,AF'", [], fx(0x08))
    add("EXX", "EXX", [], fx(0xD9))
    add("EX (SP),HL", "EX (SP),HL", [], fx(0xE3))
    for m, o in (("LDI", 0xA0), ("LDIR", 0xB0), ("LDD", 0xA8), ("LDDR", 0xB8), ("CPI", 0xA1), ("CPIR", 0xB1),
                 ("CPD", 0xA9), ("CPDR", 0xB9), ("INI", 0xA2), ("INIR", 0xB2), ("IND", 0xAA), ("INDR", 0xBA),
                 ("OUTI", 0xA3), ("OTIR", 0xB3), ("OUTD", 0xAB), ("OTDR", 0xBB), ("NEG", 0x44), ("RETI", 0x4D),
                 ("RETN", 0x45), ("RLD", 0x6F), ("RRD", 0x67)):
        add(m, m, [], fx(0xED, o))

    # ---- 8 bit arithmetic and logic
    for i, (m, pre) in enumerate((("ADD", "A,"), ("ADC", "A,"), ("SUB", ""), ("SBC", "A,"), ("AND", ""), ("XOR", ""),
                                  ("OR", ""), ("CP", ""))):
        for sn, s in R.items():
            add("%s %s%s" % (m, pre, sn), "%s %s%s" % (m, pre, sn), [], fx(0x80 | i << 3 | s))
        add("%s %sn" % (m, pre), "%s %s{0}" % (m, pre), [N8()], (lambda o: lambda pc, v: bytes([o, lo(v[0])]))(0xC6 | i << 3))
        add("%s %s(HL)" % (m, pre), "%s %s(HL)" % (m, pre), [], fx(0x86 | i << 3))
        for xn, px in XY:
            add("%s %s(%s+d)" % (m, pre, xn), "%s %s(%s{0})" % (m, pre, xn), [DISP()],
                (lambda p, o: lambda pc, v: bytes([p, o, lo(v[0])]))(px, 0x86 | i << 3))
    for m, o in (("INC", 0x04), ("DEC", 0x05)):
        for rn, r in R.items():
            add("%s %s" % (m, rn), "%s %s" % (m, rn), [], fx(o | r << 3))
        add(m + " (HL)", m + " (HL)", [], fx(o | 6 << 3))
        for xn, px in XY:
            add("%s (%s+d)" % (m, xn), "%s (%s{0})" % (m, xn), [DISP()],
                (lambda p, oo: lambda pc, v: bytes([p, oo, lo(v[0])]))(px, o | 6 << 3))

    # ---- general purpose / CPU control
    for m, o in (("DAA", 0x27), ("CPL", 0x2F), ("CCF", 0x3F), ("SCF", 0x37), ("NOP", 0x00), ("HALT", 0x76),
                 ("DI", 0xF3), ("EI", 0xFB), ("RLCA", 0x07), ("RLA", 0x17), ("RRCA", 0x0F), ("RRA", 0x1F),
                 ("RET", 0xC9)):
        add(m, m, [], fx(o))
    add("IM n", "IM {0}", [Int(0, 2)], lambda pc, v: bytes([0xED, (0x46, 0x56, 0x5E)[v[0]]]))

    # ---- 16 bit arithmetic
    for i, sn in enumerate(DD):
        add("ADD HL," + sn, "ADD HL," + sn, [], fx(0x09 | i << 4))
        add("ADC HL," + sn, "ADC HL," + sn, [], fx(0xED, 0x4A | i << 4))
        add("SBC HL," + sn, "SBC HL," + sn, [], fx(0xED, 0x42 | i << 4))
        add("INC " + sn, "INC " + sn, [], fx(0x03 | i << 4))
        add("DEC " + sn, "DEC " + sn, [], fx(0x0B | i << 4))

    # ---- rotate and shift (CB), bit set/reset/test
    for i, m in enumerate(("RLC", "RRC", "RL", "RR", "SLA", "SRA", None, "SRL")):
        if m is None:
            continue            # CB 30..37 is undocumented
        for rn, r in R.items():
            add("%s %s" % (m, rn), "%s %s" % (m, rn), [], fx(0xCB, i << 3 | r))
        add(m + " (HL)", m + " (HL)", [], fx(0xCB, i << 3 | 6))
        for xn, px in XY:
            add("%s (%s+d)" % (m, xn), "%s (%s{0})" % (m, xn), [DISP()],
                (lambda p, o: lambda pc, v: bytes([p, 0xCB, lo(v[0]), o]))(px, i << 3 | 6))
    for m, base in (("BIT", 0x40), ("RES", 0x80), ("SET", 0xC0)):
        for rn, r in R.items():
            add("%s b,%s" % (m, rn), "%s {0},%s" % (m, rn), [BITN()],
                (lambda o: lambda pc, v: bytes([0xCB, o | v[0] << 3]))(base | r))
        add("%s b,(HL)" % m, "%s {0},(HL)" % m, [BITN()], (lambda o: lambda pc, v: bytes([0xCB, o | v[0] << 3]))(base | 6))
        for xn, px in XY:
            add("%s b,(%s+d)" % (m, xn), "%s {0},(%s{1})" % (m, xn), [BITN(), DISP()],
                (lambda p, o: lambda pc, v: bytes([p, 0xCB, lo(v[1]), o | v[0] << 3]))(px, base | 6))

    # ---- jump, call, return
    add("JP nn", "JP {0}", [A16()], lambda pc, v: bytes([0xC3, lo(v[0]), hi(v[0])]))
    add("CALL nn", "CALL {0}", [A16()], lambda pc, v: bytes([0xCD, lo(v[0]), hi(v[0])]))
    for i, cn in enumerate(CC):
        add("JP %s,nn" % cn, "JP %s,{0}" % cn, [A16()], (lambda o: lambda pc, v: bytes([o, lo(v[0]), hi(v[0])]))(0xC2 | i << 3))
        add("CALL %s,nn" % cn, "CALL %s,{0}" % cn, [A16()], (lambda o: lambda pc, v: bytes([o, lo(v[0]), hi(v[0])]))(0xC4 | i << 3))
        add("RET " + cn, "RET " + cn, [], fx(0xC0 | i << 3))
    rel = (0, lambda b: sx(b[1], 8))
    add("JR e", "JR {0}", [Rel(-128, 127, 2)], lambda pc, v: bytes([0x18, lo(v[0])]), rel)
    for cn, o in (("NZ", 0x20), ("Z", 0x28), ("NC", 0x30), ("C", 0x38)):
        add("JR %s,e" % cn, "JR %s,{0}" % cn, [Rel(-128, 127, 2)], (lambda oo: lambda pc, v: bytes([oo, lo(v[0])]))(o), rel)
    add("DJNZ e", "DJNZ {0}", [Rel(-128, 127, 2)], lambda pc, v: bytes([0x10, lo(v[0])]), rel)
    add("JP (HL)", "JP (HL)", [], fx(0xE9))
    add("RST p", "RST {0}", [Int(0, 0x38, step=8)], lambda pc, v: bytes([0xC7 | v[0]]))

    # ---- input / output
    add("IN A,(n)", "IN A,({0})", [P8()], lambda pc, v: bytes([0xDB, lo(v[0])]))
    add("OUT (n),A", "OUT ({0}),A", [P8()], lambda pc, v: bytes([0xD3, lo(v[0])]))
    for rn, r in R.items():
        add("IN %s,(C)" % rn, "IN %s,(C)" % rn, [], fx(0xED, 0x40 | r << 3))
        add("OUT (C),%s" % rn, "OUT (C),%s" % rn, [], fx(0xED, 0x41 | r << 3))
    return F


ISAS = [
    Isa("Z80", "Z80", build(), "intel", pcsym="$", slot=8, base=0x1000, offsets=[0, 1, 3], golden=[("t_z380", {"z380": True, "z80undoc": True})]),
]
