"""General Instrument CP-1600 reference encoder.

Source of truth: General Instrument "Series 1600 Microprocessor System Documentation"
(S16DOC-CP-1600-04, CP-1600 Microprocessor Users Manual, May 1975), chapter "Instruction Set" with the
10-bit opcode formats, and the CP1610 data sheet's instruction summary.  Written from GI's
definition, not from codecp1600.c.

Instruction words are 10 bits wide ("decles"), bits 9..0; AS stores one decle per 16-bit word of
the code segment (high byte first in the code file, as the golden image of t_cp1600 has it), operand words (addresses, immediates,
displacements) are full memory words.

  0000 000 ooo            HLT SDBD EIS DIS (J) TCI CLRC SETC            ooo = 0..7
  0000 ooo ddd            INCR DECR COMR NEGR ADCR                      ooo = 1..5
  0000 110 0dd            GSWD  (R0..R3)
  0000 110 10m            NOP   (two versions, m = 0/1)
  0000 110 11m            SIN   (two versions, m = 0/1)
  0000 111 sss            RSWD
  0001 ooo nrr            SWAP SLL RLC SLLC SLR SAR RRC SARC   rr = R0..R3, n = 0: one position, 1: two
  0ooo sss ddd            MOVR ADDR SUBR CMPR ANDR XORR                 ooo = 2..7
  1000 z x cccc | disp    branches: z = 0 forward (target = PC+2+disp), z = 1 backward (the
                          displacement is one's complemented: target = PC+2-(disp+1)); x = 1: BEXT with
                          the external condition number in cccc; the displacement is a full word
  1ooo mmm rrr            MVO MVI ADD SUB CMP AND XOR                   ooo = 1..7
                          mmm = 000: direct, the address follows as a word
                          mmm = 1..6: indirect through R1..R6 (R4/R5 post-increment, R6 stack)
                          mmm = 111: immediate (indirect through the PC), the operand follows
  0000 000 100 | bb aaaaaa ff | aaaaaaaaaa     J / JSR: bb = 00/01/10 return register R4/R5/R6,
                          11 = no return address (J); ff = 00 none, 01 enable (E), 10 disable (D)
                          interrupts; aaaaaa = address bits 15..10, third decle = address bits 9..0

Synonyms of the GI manual: TSTR r = MOVR r,r; JR r = MOVR r,R7; CLRR r = XORR r,r; PSHR r = MVO@ r,R6;
PULR r = MVI@ R6,r; NOPP = branch never; BEQ = BZE; BNEQ = BNZE; BLGT = BC; BLLT = BNC.

Integer syntax: the default of the target is IBM for hexadecimal (X'1F') and C for octal
(doc/pseudo-instructions-and-integer-syntax.md); instruction operands are rendered as X'..' by this
module's operand kinds.  The shared check writes ORG addresses and EQU values through
common.lit(), which knows Motorola / Intel / C only, therefore the programs start with RELAXED ON
(doc: all notations may be used) and those places use 0x.. .

NOP / SIN: GI's manual lists both with "two versions" (m = 0/1) without separate mnemonics; AS writes them
with an optional version number 1 or 2 like the shift count (golden test: `NOP 1`, `SIN 2`); the table takes
that reading: operand n in 1..2 selects m = n-1, anything else must be rejected.  NOPP (branch never) is two
words; its second word is skipped by the processor and not compared.

Registers that an instruction's field cannot name must be rejected: R4..R7 in the two-bit field of the
shifts and GSWD, R0 / R7 as pointer of MVx@ (these bit patterns are the direct and the immediate form),
R0..R3 / R7 as return register of JSR.

Excluded by construction:
  * the SDBD rule (immediate operand split into two bytes when the instruction is preceded by SDBD),
    and therefore SDBD itself (opcode 0001h): AS remembers an SDBD across the ORG that separates the
    generated instructions, so the instruction of the next slot would be assembled in double-byte form
  * BITS (AS's memory-width switch; not described in the AS manual): programs use the default width of
    16 bits, where an immediate / displacement is one full word
  * branch targets that would need the wrap-around of the 16-bit address space
  * register synonyms SP / PC, GI's alternative mnemonics not used in the golden test (BNGE ...)
"""
from .common import Form, Int, Enum, Rel, Isa
from .m68k import BigEndianWords      # listing reader for big-endian word listings (selftest only)

R = ["R%d" % i for i in range(8)]


class RegOf(Enum):
    """register out of R0..R7 of which only some can be encoded in the instruction's field: the others
    must be rejected (their bit pattern is a different instruction or does not fit the field)"""

    def __init__(self, good):
        Enum.__init__(self, R)
        self.good = list(good)
        self.bad = [i for i in range(8) if i not in self.good]

    def classify(self, v, pc=0, vals=None):
        if v in self.bad:
            return "rej"
        return Enum.classify(self, v, pc, vals)

    def boundary_ok(self):
        return list(self.good)

    def boundary_rej(self):
        return list(self.bad)

    def opclass(self, v):
        return "illegal-" + self.names[v] if v in self.bad else None

    def draw_ok(self, d):
        return d.choice(self.good)

    def draw_rej(self, d):
        return d.choice(self.bad)


R03 = lambda: RegOf([0, 1, 2, 3])           # two-bit register field of the shifts and GSWD
RPTR = lambda: RegOf([1, 2, 3, 4, 5, 6])    # pointer of the indirect mode (000 = direct, 111 = immediate)
RRET = lambda: RegOf([4, 5, 6])             # return-address register of JSR, field value = number - 4


def words(*ws):
    """16-bit words as AS stores them in the code file for this target: high byte first (the golden image
    tests/t_cp1600/t_cp1600.ori fixes this storage convention; the CP-1600 itself is word addressed)"""
    return b"".join(bytes([(w >> 8) & 0xff, w & 0xff]) for w in ws)


def ibm(v, hexa):
    if v < 0:
        return "-" + ibm(-v, hexa)
    return "X'%X'" % v if hexa else str(v)


class IntI(Int):
    """integer rendered in the target's default (IBM) hexadecimal notation"""

    def render(self, v, syntax, hexa):
        return ibm(v, hexa)


IMM = lambda: IntI(-32768, 65535)
ADR = lambda: IntI(0, 65535, rej_lo=False)

ABS = 1 << 20


class Branch(Rel):
    """branch target.  Value = target - (PC+2); >= 0 assembles as forward branch with that displacement,
    < 0 as backward branch with the one's complement of it.  The displacement is a full 16-bit word, so
    every address is reachable and nothing is rejectable.  Values >= ABS denote the absolute target
    value-ABS (first and last address of the address space)."""

    def __init__(self):
        Rel.__init__(self, -0x1002, 0xE000, 2, 1, band=8)

    def target(self, v, pc):
        return v - ABS if v >= ABS else pc + 2 + v

    def from_target(self, t, pc):
        return t - pc - 2

    def classify(self, v, pc=0, vals=None):
        if v >= ABS:
            return "ok" if v - ABS <= 0xffff else "excl"
        return "ok" if self.lo <= v <= self.hi else "excl"

    def boundary_ok(self):
        return [0, -1, 1, -2, -3, 2, ABS + 0, ABS + 1, ABS + 0xffff, ABS + 0xfffe, 255, 256, -256, -257, 1023, 1024,
                -1024, -1025, 32767, 32768, self.lo, self.hi]

    def boundary_rej(self):
        return []

    def opclass(self, v):
        for nm, ref in (("fwd0", 0), ("bwd0", -1), ("first", ABS), ("last", ABS + 0xffff), ("10bit+", 1023),
                        ("10bit-", -1024), ("15bit", 32767)):
            if 0 <= v - ref <= 1:
                return "br@%s%+d" % (nm, v - ref)
        return None

    def draw_ok(self, d):
        k = d.int(0, 9)
        if k < 5:
            return d.choice(self.boundary_ok())
        if k < 8:
            return d.int(-40, 40)
        return d.int(self.lo, self.hi)

    def draw_rej(self, d):
        return None


BR = Branch()


def brdec(b):
    """code bytes -> distance from PC+2"""
    op = b[0] << 8 | b[1]
    disp = b[2] << 8 | b[3]
    return ~disp if op & 0x20 else disp


def brenc(base):
    def enc(pc, v):
        d = BR.target(v[0], pc) - pc - 2
        if d >= 0:
            return words(base, d)
        return words(base | 0x20, ~d & 0xffff)
    return enc


def build():
    F = []

    def add(name, fmt, ops, enc, rel=None):
        F.append(Form(name, fmt, ops, enc, rel))

    const = lambda w: (lambda pc, v: words(w))

    # ---- control
    for m, op in (("HLT", 0), ("EIS", 2), ("DIS", 3), ("TCI", 5), ("CLRC", 6), ("SETC", 7),
                  ("NOP", 0x34), ("SIN", 0x36)):
        add(m, m, [], const(op))
    for m, op in (("NOP", 0x34), ("SIN", 0x36)):
        add(m + " n", m + " {0}", [IntI(1, 2)], (lambda op: lambda pc, v: words(op | v[0] - 1))(op))

    # ---- single register
    for m, op in (("INCR", 0x08), ("DECR", 0x10), ("COMR", 0x18), ("NEGR", 0x20), ("ADCR", 0x28), ("RSWD", 0x38)):
        add(m + " r", m + " {0}", [Enum(R)], (lambda op: lambda pc, v: words(op | v[0]))(op))
    add("GSWD r", "GSWD {0}", [R03()], lambda pc, v: words(0x30 | v[0]))

    # ---- shifts / rotates: R0..R3, optional count 1 or 2
    for i, m in enumerate(["SWAP", "SLL", "RLC", "SLLC", "SLR", "SAR", "RRC", "SARC"]):
        op = 0x40 | i << 3
        add(m + " r", m + " {0}", [R03()], (lambda op: lambda pc, v: words(op | v[0]))(op))
        add(m + " r,n", m + " {0},{1}", [R03(), IntI(1, 2)],
            (lambda op: lambda pc, v: words(op | (v[1] - 1) << 2 | v[0]))(op))

    # ---- register to register
    for i, m in enumerate(["MOVR", "ADDR", "SUBR", "CMPR", "ANDR", "XORR"]):
        op = (i + 2) << 6
        add(m + " s,d", m + " {0},{1}", [Enum(R), Enum(R)], (lambda op: lambda pc, v: words(op | v[0] << 3 | v[1]))(op))
    add("TSTR r", "TSTR {0}", [Enum(R)], lambda pc, v: words(0x080 | v[0] << 3 | v[0]))
    add("JR r", "JR {0}", [Enum(R)], lambda pc, v: words(0x080 | v[0] << 3 | 7))
    add("CLRR r", "CLRR {0}", [Enum(R)], lambda pc, v: words(0x1C0 | v[0] << 3 | v[0]))

    # ---- memory: direct, indirect, immediate.  MVO writes: its register operand comes first.
    add("MVO r,adr", "MVO {0},{1}", [Enum(R), ADR()], lambda pc, v: words(0x240 | v[0], v[1]))
    add("MVO@ r,p", "MVO@ {0},{1}", [Enum(R), RPTR()], lambda pc, v: words(0x240 | v[1] << 3 | v[0]))
    add("MVOI r,imm", "MVOI {0},{1}", [Enum(R), IMM()], lambda pc, v: words(0x278 | v[0], v[1] & 0xffff))
    for i, m in enumerate(["MVI", "ADD", "SUB", "CMP", "AND", "XOR"]):
        op = (i + 10) << 6
        add(m + " adr,r", m + " {0},{1}", [ADR(), Enum(R)], (lambda op: lambda pc, v: words(op | v[1], v[0]))(op))
        add(m + "@ p,r", m + "@ {0},{1}", [RPTR(), Enum(R)],
            (lambda op: lambda pc, v: words(op | v[0] << 3 | v[1]))(op))
        add(m + "I imm,r", m + "I {0},{1}", [IMM(), Enum(R)],
            (lambda op: lambda pc, v: words(op | 0x38 | v[1], v[0] & 0xffff))(op))
    add("PSHR r", "PSHR {0}", [Enum(R)], lambda pc, v: words(0x270 | v[0]))
    add("PULR r", "PULR {0}", [Enum(R)], lambda pc, v: words(0x2B0 | v[0]))

    # ---- branches
    CC = [("B", 0), ("BC", 1), ("BLGT", 1), ("BOV", 2), ("BPL", 3), ("BZE", 4), ("BEQ", 4), ("BLT", 5), ("BLE", 6),
          ("BUSC", 7), ("NOPP", 8), ("BNC", 9), ("BLLT", 9), ("BNOV", 10), ("BMI", 11), ("BNZE", 12), ("BNEQ", 12),
          ("BGE", 13), ("BGT", 14), ("BESC", 15)]
    for m, c in CC:
        if m == "NOPP":
            # branch never: two words, the second one (skipped displacement) is arbitrary
            F.append(Form("NOPP", "NOPP", [], lambda pc, v: words(0x208, 0), dontcare=b"\0\0\xff\xff"))
            continue
        add(m + " a", m + " {0}", [BR], brenc(0x200 | c), (0, brdec))
    add("BEXT a,e", "BEXT {0},{1}", [BR, IntI(0, 15)],
        lambda pc, v: brenc(0x210 | v[1])(pc, v), (0, brdec))

    # ---- jumps
    def jenc(bb, ff):
        return lambda pc, v: words(0x004, bb(v) << 8 | (v[-1] >> 10) << 2 | ff, v[-1] & 0x3ff)
    for sfx, ff in (("", 0), ("E", 1), ("D", 2)):
        add("J%s adr" % sfx, "J%s {0}" % sfx, [ADR()], jenc(lambda v: 3, ff))
        add("JSR%s r,adr" % sfx, "JSR%s {0},{1}" % sfx, [RRET(), ADR()], jenc(lambda v: v[0] - 4, ff))
    return F


FORMS = build()

# golden test t_cp1600: lines that exercise what this table excludes (see the module comment)
IGNORE = [
    "sdbd",
    "mvii 100,r3",                          # preceded by SDBD
    "mvii 1023,r0", "mvii 1024,r1", "mvii 65535,r2", "addi 2047,r0", "addi 2048,r1", "addi 4096,r2",   # BITS 10/11
]

ISAS = [Isa("CP1600", "CP-1600", FORMS, "c", pcsym="*", gran=BigEndianWords(2), slot=8, base=0x1000, offsets=[0, 1, 5],
            prologue=["\trelaxed\ton"], golden=[("t_cp1600", {"cp-1600": True})], golden_ignore=IGNORE)]
