"""National Semiconductor SC/MP (ISP-8A/500, INS8060) reference encoder - National "SC/MP
Technical Description" / "SC/MP Programming and Assembler Manual", instruction summary.  Written from
National's definition, not from codescmp.c.

Memory reference instructions:  oooo o m pp | disp   (m = auto-index '@', pp = pointer register,
pp = 0 is the program counter); disp is a signed byte, the value -128 (80h) selects the extension
register E as displacement instead.

Rules of the manufacturer modelled here
  * PC-relative addressing: the effective address is PC + disp, where PC addresses the *second*
    byte of the instruction when the displacement is added (the SC/MP increments its PC before every
    fetch): EA = pc + 1 + disp.
  * for the transfer instructions (JMP/JP/JZ/JNZ) the EA is loaded into PC and PC is incremented
    again before the next opcode is fetched, so the instruction executed next is at EA + 1; the
    assembler compensates for this when the operand is a plain address: disp = target - pc - 2.
  * address arithmetic is 12 bits wide: the upper four address bits (the 4K page) never change, a
    carry out of bit 11 is lost.  An instruction in the last bytes of a page therefore reaches the
    first bytes of the *same* page with a positive displacement; the following page is out of reach.
  * with an explicit pointer register (disp(Pn)) the displacement is encoded as written.
  * ILD / DLD have no auto-indexed form, ST has no immediate form.

Not generated: numeric displacement -128 and PC-relative distance -128 (would select E; AS's treatment
is not documented), disp(PC) with a numeric displacement (AS accepts only E(PC)), instructions whose
second byte lies in another page than the first.
"""
from .common import Form, Int, Enum, Rel, Isa, sx

PTR = ["P1", "P2", "P3"]
PTRN = ["1", "2", "3"]
PTR4 = ["PC", "P1", "P2", "P3"]
PTR4N = ["0", "1", "2", "3"]
PTR4P = ["P0", "P1", "P2", "P3"]

D8 = lambda: Int(-128, 255)
DISP = lambda: Int(-128, 127, holes=(-128,))


class PcRel(Rel):
    """signed 8-bit displacement from pc+1 (adj=0) or, for jumps, from pc+2 (adj=1), 12-bit wrap"""

    def __init__(self, adj):
        Rel.__init__(self, -127, 127, 1 + adj, 1, band=6)

    def classify(self, v, pc=0, vals=None):
        if v == -128:
            return "excl"       # 80h = E register
        return Rel.classify(self, v, pc, vals)

    def boundary_rej(self):
        return [128, 129, -129, -130]

    def target(self, v, pc):
        return (pc & 0xf000) | ((pc + self.pcoff + v) & 0xfff)

    def from_target(self, t, pc):
        if (t ^ pc) & ~0xfff:
            return None
        return sx(t - pc - self.pcoff, 12)


def build():
    F = []
    for i, m in enumerate(["HALT", "XAE", "CCL", "SCL", "DINT", "IEN", "CSA", "CAS", "NOP"]):
        F.append(Form(m, m, [], (lambda o: lambda pc, v: bytes([o]))(i)))
    for m, op in (("SIO", 0x19), ("SR", 0x1C), ("SRL", 0x1D), ("RR", 0x1E), ("RRL", 0x1F), ("LDE", 0x40),
                  ("ANE", 0x50), ("ORE", 0x58), ("XRE", 0x60), ("DAE", 0x68), ("ADE", 0x70), ("CAE", 0x78)):
        F.append(Form(m, m, [], (lambda o: lambda pc, v: bytes([o]))(op)))
    for m, op in (("XPAL", 0x30), ("XPAH", 0x34), ("XPPC", 0x3C)):
        for tag, names in (("Pn", PTR4), ("n", PTR4N), ("P0", PTR4P)):
            F.append(Form("%s %s" % (m, tag), m + " {0}", [Enum(names)],
                          (lambda o: lambda pc, v: bytes([o | v[0]]))(op)))
    F.append(Form("DLY d8", "DLY {0}", [Int(0, 255, rej_lo=False)], lambda pc, v: bytes([0x8F, v[0] & 0xff])))
    # memory reference
    for m, op, auto, imm in (("LD", 0xC0, True, "LDI"), ("ST", 0xC8, True, None), ("AND", 0xD0, True, "ANI"),
                             ("OR", 0xD8, True, "ORI"), ("XOR", 0xE0, True, "XRI"), ("DAD", 0xE8, True, "DAI"),
                             ("ADD", 0xF0, True, "ADI"), ("CAD", 0xF8, True, "CAI"), ("ILD", 0xA8, False, None),
                             ("DLD", 0xB8, False, None)):
        def mk(o):
            return lambda pc, v: bytes([o | (v[1] + 1), v[0] & 0xff])

        F.append(Form(m + " a", m + " {0}", [PcRel(0)], (lambda o: lambda pc, v: bytes([o, v[0] & 0xff]))(op),
                      rel=(0, lambda b: sx(b[1], 8))))
        F.append(Form(m + " d(Pn)", m + " {0}({1})", [DISP(), Enum(PTR)], mk(op)))
        F.append(Form(m + " d(n)", m + " {0}({1})", [DISP(), Enum(PTRN)], mk(op)))
        F.append(Form(m + " E(Pn)", m + " E({0})", [Enum(PTR4)], (lambda o: lambda pc, v: bytes([o | v[0], 0x80]))(op)))
        if auto:
            F.append(Form(m + " @d(Pn)", m + " @{0}({1})", [DISP(), Enum(PTR)], mk(op | 4)))
            F.append(Form(m + " @d(n)", m + " @{0}({1})", [DISP(), Enum(PTRN)], mk(op | 4)))
            F.append(Form(m + " @E(Pn)", m + " @E({0})", [Enum(PTR)],
                          (lambda o: lambda pc, v: bytes([o | 4 | (v[0] + 1), 0x80]))(op)))
        if imm:
            F.append(Form(imm + " d8", imm + " {0}", [D8()], (lambda o: lambda pc, v: bytes([o | 4, v[0] & 0xff]))(op)))
    # transfer instructions
    for m, op in (("JMP", 0x90), ("JP", 0x94), ("JZ", 0x98), ("JNZ", 0x9C)):
        F.append(Form(m + " a", m + " {0}", [PcRel(1)], (lambda o: lambda pc, v: bytes([o, v[0] & 0xff]))(op),
                      rel=(0, lambda b: sx(b[1], 8))))
        F.append(Form(m + " d(Pn)", m + " {0}({1})", [DISP(), Enum(PTR)],
                      (lambda o: lambda pc, v: bytes([o | (v[1] + 1), v[0] & 0xff]))(op)))
        F.append(Form(m + " d(n)", m + " {0}({1})", [DISP(), Enum(PTRN)],
                      (lambda o: lambda pc, v: bytes([o | (v[1] + 1), v[0] & 0xff]))(op)))
    return F


# slot 15 of a batch ends at 1FFFh: page_end visits every PC-relative form with the instruction in the
# last two bytes of the 4K page (forward displacements wrap to 1000h..)
ISAS = [Isa("SCMP", "SC/MP", build(), "c", pcsym="$", slot=16, base=0x1F00, offsets=[0, 5, 14],
            page_end=(4096, 0xFFE), golden=[("t_scmp", {"sc/mp": True})])]
