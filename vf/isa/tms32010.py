"""Texas Instruments TMS32010 reference encoder - TMS32010 User's Guide (1983), chapter "Assembly
language instructions" and the instruction set summary (tables "accumulator", "auxiliary register
and data page pointer", "branch", "T register, P register and multiply", "control", "I/O and data
memory" instructions).  Written from TI's definition, not from code3201x.c.

Instruction word (16 bit), memory reference part in the low byte:
    0 ddddddd        direct: the 7 low bits of the data memory address (the page comes from DP)
    1 0 I D N 0 0 R  indirect through AR(ARP):  I = 1 post-increment (*+), D = 1 post-decrement (*-),
                     N = 0 load ARP with R afterwards (written as a further operand), N = 1 ARP unchanged
    ADD/SUB/LAC  oooo ssss m        shift 0..15
    SACH         0101 1 sss m       shift 0, 1 or 4 only;   SACL 0101 0000 m (same operand syntax, the only shift is 0)
    IN / OUT     0100 0 ppp m / 0100 1 ppp m        port 0..7
    LAR / SAR    0011 100r m / 0011 000r m;  LARK 0111 000r kkkkkkkk;  LARP = MAR *,k = 0110 1000 1000 000k
    LACK 0111 1110 kkkkkkkk;  LDPK 0110 1110 0000 000k;  MPYK 100 k(13 bit two's complement)
    branches / CALL: 1111 cccc 0000 0000 followed by a word with the 12-bit program address
CODE addresses are word addresses; words are stored least significant byte first in the code file.

CPU 32010: 144 words of data memory (0..143), 4K words of program memory, 8 ports
(doc/pseudo-instructions.md, table of segment sizes).  A direct address 128..143 lies in data page 1, the
instruction holds its low 7 bits (doc/processor-specific-hints.md, TMS3201x: "automatically clears bit 7").

Excluded by construction:
  * negative addresses; LARK constants below 0 (the 8-bit constant is unsigned; AS takes -1 as 255)
  * direct addresses 144..255 (second data page of the 32015, not present on the 32010 but encodable);
    addresses >= 256 lie outside the 8-bit data address space and must be rejected
  * SST with a direct address below 128: TI defines that SST in direct mode always stores into page 1,
    which of `SST 5` / `SST 133` AS wants is only documented for the latter
  * TI's '>' hex constants (AS uses Intel syntax, doc/processor-specific-hints.md)
"""
from .common import Form, Int, Enum, Isa, words

AR_NAMES = ["AR0", "AR1"]
PA_NAMES = ["PA%d" % i for i in range(8)]
IND = [("*", 0x88), ("*+", 0xA8), ("*-", 0x98)]

DMA = lambda: Int(0, 143, rej_lo=False, rej_from=256, extra=(127, 128))
DMA1 = lambda: Int(128, 143, rej_lo=False, rej_from=256)          # SST
PMA = lambda: Int(0, 4095, rej_lo=False)
K8 = lambda: Int(0, 255, rej_lo=False)      # LARK
K8U = lambda: Int(0, 255)                   # LACK: the constant is zero-extended, a negative one cannot be loaded
K1 = lambda: Int(0, 1)
K13 = lambda: Int(-4096, 4095)
SH16 = lambda: Int(0, 15)
PORT = lambda: Int(0, 7)


class Sh014(Int):
    """SACH output shift: TI defines 0, 1 and 4 only"""

    def __init__(self):
        Int.__init__(self, 0, 4)

    def classify(self, v, pc=0, vals=None):
        if v in (2, 3):
            return "rej"
        return Int.classify(self, v, pc, vals)

    def boundary_ok(self):
        return [0, 1, 4]

    def boundary_rej(self):
        return [2, 3, 5, 6, -1, 8, 16, 4 + (1 << 16), (1 << 32)]

    def opclass(self, v):
        return "shift%d" % v if v in (0, 1, 2, 3, 4, 5) else Int.opclass(self, v)

    def draw_ok(self, d):
        return d.choice([0, 1, 4])


# mnemonic: opcode (high byte), memory reference in the low byte
MEM = {"ADDH": 0x60, "ADDS": 0x61, "SUBH": 0x62, "SUBS": 0x63, "SUBC": 0x64, "ZALH": 0x65, "ZALS": 0x66,
       "TBLR": 0x67, "MAR": 0x68, "DMOV": 0x69, "LT": 0x6A, "LTD": 0x6B, "LTA": 0x6C, "MPY": 0x6D, "LDP": 0x6F,
       "XOR": 0x78, "AND": 0x79, "OR": 0x7A, "LST": 0x7B, "SST": 0x7C, "TBLW": 0x7D}
SHIFTED = {"ADD": 0x00, "SUB": 0x10, "LAC": 0x20}
BRANCH = {"BANZ": 0xF4, "BV": 0xF5, "BIOZ": 0xF6, "CALL": 0xF8, "B": 0xF9, "BLZ": 0xFA, "BLEZ": 0xFB, "BGZ": 0xFC,
          "BGEZ": 0xFD, "BNZ": 0xFE, "BZ": 0xFF}
FIXED = {"NOP": 0x7F80, "DINT": 0x7F81, "EINT": 0x7F82, "ABS": 0x7F88, "ZAC": 0x7F89, "ROVM": 0x7F8A, "SOVM": 0x7F8B,
         "CALA": 0x7F8C, "RET": 0x7F8D, "PAC": 0x7F8E, "APAC": 0x7F8F, "SPAC": 0x7F90, "PUSH": 0x7F9C, "POP": 0x7F9D}


def memforms(add, m, lead, leadops, hi, dma=DMA, mid="", midops=(), arp=True):
    """the three memory reference variants of one instruction.
    lead/leadops: operands written before the address (LAR/SAR), mid/midops: between address and next ARP;
    hi(vals) -> bits 15..8 of the word (vals without the address operands)"""
    nl, nm = len(leadops), len(midops)
    pre = "".join("{%d}," % i for i in range(nl))

    def ph(k):
        return "{%d}" % k

    midtxt = "".join("," + ph(nl + 1 + i) for i in range(nm))
    # direct
    add("%s %sdma%s" % (m, lead, mid), "%s %s%s%s" % (m, pre, ph(nl), midtxt), list(leadops) + [dma()] + list(midops),
        lambda pc, v: words(hi(v[:nl] + v[nl + 1:]) << 8 | v[nl] & 0x7f))
    for txt, code in IND:
        add("%s %s%s%s" % (m, lead, txt, mid), "%s %s%s%s" % (m, pre, txt, "".join("," + ph(nl + i) for i in range(nm))),
            list(leadops) + list(midops), (lambda c: lambda pc, v: words(hi(v) << 8 | c))(code))
        for names in (AR_NAMES, None) if arp else ():
            arp = Enum(names) if names else K1()
            add("%s %s%s%s,%s" % (m, lead, txt, mid, "ARn" if names else "n"),
                "%s %s%s%s,%s" % (m, pre, txt, "".join("," + ph(nl + i) for i in range(nm)), ph(nl + nm)),
                list(leadops) + list(midops) + [arp],
                (lambda c: lambda pc, v: words(hi(v[:-1]) << 8 | (c & ~0x08) | v[-1]))(code))


def build():
    F = []

    def add(name, fmt, ops, enc):
        F.append(Form(name, fmt, ops, enc))

    for m, w in FIXED.items():
        add(m, m, [], (lambda o: lambda pc, v: words(o))(w))
    for m, op in MEM.items():
        memforms(add, m, "", [], (lambda o: lambda v: o)(op), dma=DMA1 if m == "SST" else DMA)
    for m, op in SHIFTED.items():
        # shift omitted = 0; the next ARP can only be written after a shift (TI: ADD {ind}[,shift[,next ARP]])
        memforms(add, m, "", [], (lambda o: lambda v: o)(op), arp=False)
        memforms(add, m, "", [], (lambda o: lambda v: o | v[0])(op), mid=",shift", midops=[SH16()])
    memforms(add, "SACH", "", [], lambda v: 0x58, arp=False)
    memforms(add, "SACH", "", [], lambda v: 0x58 | v[0], mid=",shift", midops=[Sh014()])
    # SACL has the operand syntax of SACH (TI: SACL {ind}[,shift[,next ARP]]), its only shift is 0
    memforms(add, "SACL", "", [], lambda v: 0x50, arp=False)
    memforms(add, "SACL", "", [], lambda v: 0x50, mid=",shift", midops=[Int(0, 0)])
    for m, op in (("IN", 0x40), ("OUT", 0x48)):
        memforms(add, m, "", [], (lambda o: lambda v: o | v[0])(op), mid=",port", midops=[PORT()])
        memforms(add, m, "", [], (lambda o: lambda v: o | v[0])(op), mid=",PAn", midops=[Enum(PA_NAMES)])
    for m, op in (("LAR", 0x38), ("SAR", 0x30)):
        memforms(add, m, "ARn,", [Enum(AR_NAMES)], (lambda o: lambda v: o | v[0])(op))
        memforms(add, m, "n,", [K1()], (lambda o: lambda v: o | v[0])(op))
    add("LARK ARn,k", "LARK {0},{1}", [Enum(AR_NAMES), K8()], lambda pc, v: words(0x7000 | v[0] << 8 | v[1]))
    add("LARK n,k", "LARK {0},{1}", [K1(), K8()], lambda pc, v: words(0x7000 | v[0] << 8 | v[1]))
    add("LARP ARn", "LARP {0}", [Enum(AR_NAMES)], lambda pc, v: words(0x6880 | v[0]))
    add("LARP n", "LARP {0}", [K1()], lambda pc, v: words(0x6880 | v[0]))
    add("LACK k", "LACK {0}", [K8U()], lambda pc, v: words(0x7E00 | v[0]))
    add("LDPK k", "LDPK {0}", [K1()], lambda pc, v: words(0x6E00 | v[0]))
    add("MPYK k", "MPYK {0}", [K13()], lambda pc, v: words(0x8000 | v[0] & 0x1fff))
    for m, op in BRANCH.items():
        add(m + " pma", m + " {0}", [PMA()], (lambda o: lambda pc, v: words(o << 8, v[0]))(op))
    return F


ISAS = [Isa("TMS32010", "32010", build(), "intel", pcsym="$", gran=2, slot=2, base=0x20, maxaddr=0xfff,
            golden=[("t_3201x", {"32015": True})],
            # the selftest's expression reader takes a lone '*' for the program counter
            golden_ignore=("add *", "add *,0"))]
