"""Toshiba TLCS-90 (TMP90C840 / TMP90C141 core) reference encoder - TLCS-90 series data book, "Instruction
set" (list of machine instructions with object codes and the operation code maps).  Written from Toshiba's
definition, not from code90c141.c.

Toshiba notation recap
  r / g   8-bit register      B 000, C 001, D 010, E 011, H 100, L 101, A 110
  rr / gg 16-bit register     BC 000, DE 001, HL 010, IX 100, IY 101, SP 110
  qq      PUSH/POP register   BC 000, DE 001, HL 010, IX 100, IY 101, AF 110
  cc      condition           F 0, LT 1, LE 2, ULE 3, OV/PE 4, MI/M 5, Z/EQ 6, C/ULT 7,
                              T 8, GE 9, GT 10, UGT 11, NOV/PO 12, PL/P 13, NZ/NE 14, NC/UGE 15
  n 8-bit immediate, mn 16-bit immediate / address (low byte first), d signed 8-bit displacement,
  (FFn) the direct area 0FF00H..0FFFFH addressed with one byte

First operation code map (one byte codes)
  00 NOP  01 HALT  02 DI  03 EI  07 INCX (FFn)  08 EX DE,HL  09 EX AF,AF'  0A EXX  0B DAA A  0C RCF  0D SCF
  0E CCF  0F DECX (FFn)  10 CPL A  11 NEG A  12 MUL HL,n  13 DIV HL,n  14+ix ADD IX/IY/SP,mn
  17 LDAR HL,$+?+dd  18 DJNZ $+2+d  19 DJNZ BC,$+2+d  1A JP mn  1B JRL $+?+dd  1C CALL mn  1D CALR $+?+dd
  1E RET  1F RETI  20+r LD A,r  27 LD A,(FFn)  28+r LD r,A  2F LD (FFn),A  30+r LD r,n  37 LD (FFw),n
  38+rr LD rr,mn  3F LDW (FFw),mn  40+rr LD HL,rr  47 LD HL,(FFn)  48+rr LD rr,HL  4F LD (FFn),HL
  50+qq PUSH  58+qq POP  60+op op A,(FFn)  68+op op A,n  70+op op HL,(FFn)  78+op op HL,mn
     (op: ADD 0, ADC 1, SUB 2, SBC 3, AND 4, XOR 5, OR 6, CP 7)
  80+r INC r  87 INC (FFn)  88+r DEC r  8F DEC (FFn)  90+rr INC rr  97 INCW (FFn)  98+rr DEC rr  9F DECW (FFn)
  A0..A7 RLCA RRCA RLA RRA SLAA SRAA SLLA SRLA  A8+b BIT b,(FFn)  B0+b RES b,(FFn)  B8+b SET b,(FFn)
  C0+cc JR cc,$+2+d  FF SWI
Prefixes
  source memory operand      E0+gg (gg)   E3 n m (mn)   E7 n (FFn)   F0+ix d (IX+d)/(IY+d)/(SP+d)   F3 (HL+A)
  destination memory operand E8+gg (gg)   EB n m (mn)   EF n (FFn)   F4+ix d (IX+d)/(IY+d)/(SP+d)   F7 (HL+A)
  register operand           F8+g / F8+gg
Second byte after a source prefix
  10 RLD  11 RRD  12 MUL HL,(src)  13 DIV HL,(src)  14+ix ADD IX/IY/SP,(src)  18+b TSET b,(src)
  28+r LD r,(src)  48+rr LD rr,(src)  50+rr EX (src),rr  60+op op A,(src)  70+op op HL,(src)
  87 INC  8F DEC  97 INCW  9F DECW  A0+s RLC RRC RL RR SLA SRA SLL SRL (src)  A8+b BIT  B0+b RES  B8+b SET
Second byte after a destination prefix
  20+r LD (dst),r  37 n LD (dst),n  38+rr LDA rr,ix+d / HL+A  3F n m LDW (dst),mn  40+rr LD (dst),rr
  68+op n  op (dst),n  C0+cc JP cc,dst  D0+cc CALL cc,dst
Second byte after a register prefix
  12 MUL HL,g  13 DIV HL,g  14+ix ADD IX/IY/SP,gg  18+b TSET b,g  30+r LD r,g  38+rr LD rr,gg
  60+op op A,g  68+op n  op g,n  70+op op HL,gg  A0+s shift g  A8+b BIT b,g  B0+b RES b,g  B8+b SET b,g
  FE 58..5F LDI LDIR LDD LDDR CPI CPIR CPD CPDR          FE D0+cc RET cc

Where Toshiba's list has a dedicated short code next to the general prefixed one (LD A,r / LD r,A / LD HL,rr /
LD rr,HL, the (FFn) forms of the first map, op A,n, JP mn, CALL mn, RET), the short code is what the source form
means (the list gives the general form for "the other" operands); this is the rule modelled here.

AS syntax (doc/processor-specific-hints.md "TLCS-90", tests t_tlcs90 / t_fl90): Z80-like, destination first;
shifts without a count; memory operands of LDA, JP and CALL in parentheses; default integer syntax Intel.

Not generated (and why)
  - source forms with two equally short codes: LD A,A (26 / 2E), LD HL,HL (42 / 4A)
  - (IX), (IY), (SP) without displacement and a displacement of 0: Toshiba has both E4..E6 "(gg)" and
    F0..F2 00 "(ix+d)"; which one an assembler picks is not defined by the instruction list
  - condition T in JP / CALL / RET (same meaning as the unconditional short code)
  - JP / CALL [cc,](mn) written with parentheses around an absolute address (the table writes JP mn and
    JP cc,mn as Toshiba and the golden sources do; JP cc,mn is EB n m C0+cc, the (mn) destination form)
  - addresses 0FF00H..0FFFFH as "(mn)" (they select the direct form), negative addresses
  - JRL / CALR / LDAR HL (1B / 1D / 17 + 16-bit displacement): UNSETTLED, see the report.  From the family
    convention (TLCS-900: JRL $+3+d16, CALR $+3+d16) I expect the displacement to count from the address of the
    following instruction ($+3); AS counts from $+2 (`JRL $+3` assembles to 1B 01 00).  I cannot settle the
    base from memory of the data book with the certainty rule 2 asks for, and the repository's float library
    (t_fl90, apparently run on a TMP90C141 board) uses JRL as AS encodes it - so the three forms are left out
    instead of being reported as a defect
  - LDA with other than the index modes: Toshiba lists LDA rr,ix+d and LDA rr,HL+A only
  - the bank registers (BX, BY) and the 1 Mbyte data space: AS limits the address space to 64K (manual)
"""
from .common import Form, Int, Enum, Rel, Isa, sx

R8 = [("B", 0), ("C", 1), ("D", 2), ("E", 3), ("H", 4), ("L", 5), ("A", 6)]
R16 = [("BC", 0), ("DE", 1), ("HL", 2), ("IX", 4), ("IY", 5), ("SP", 6)]
Q16 = [("BC", 0), ("DE", 1), ("HL", 2), ("IX", 4), ("IY", 5), ("AF", 6)]
IXR = [("IX", 0), ("IY", 1), ("SP", 2)]
CC = [("F", 0), ("LT", 1), ("LE", 2), ("ULE", 3), ("OV", 4), ("PE", 4), ("MI", 5), ("M", 5), ("Z", 6), ("EQ", 6),
      ("C", 7), ("ULT", 7), ("T", 8), ("GE", 9), ("GT", 10), ("UGT", 11), ("NOV", 12), ("PO", 12), ("PL", 13),
      ("P", 13), ("NZ", 14), ("NE", 14), ("NC", 15), ("UGE", 15)]
CC_NOT_T = [c for c in CC if c[0] != "T"]
ALU = ["ADD", "ADC", "SUB", "SBC", "AND", "XOR", "OR", "CP"]
SHIFT = ["RLC", "RRC", "RL", "RR", "SLA", "SRA", "SLL", "SRL"]

N8 = lambda: Int(-128, 255)
N16 = lambda: Int(-32768, 65535)
A16 = lambda: Int(0, 65535, rej_lo=False)
ABS = lambda: Int(0, 0xFEFF, rej_lo=False, rej_from=0x10000)      # 0FF00H.. is the direct form
FFN = lambda: Int(0xFF00, 0xFFFF, rej_lo=False)
DISP = lambda: Int(-128, 127, plus=True, holes=(0,))
BITN = lambda: Int(0, 7)


def lo(x):
    return x & 0xff


def hi(x):
    return (x >> 8) & 0xff


class Mode:
    def __init__(self, key, text, mkops, src, dst, direct=False):
        self.key, self.text, self.mkops, self.src, self.dst, self.direct = key, text, mkops, src, dst, direct


MODES = [
    Mode("(BC)", "(BC)", lambda: [], lambda v: [0xE0], lambda v: [0xE8]),
    Mode("(DE)", "(DE)", lambda: [], lambda v: [0xE1], lambda v: [0xE9]),
    Mode("(HL)", "(HL)", lambda: [], lambda v: [0xE2], lambda v: [0xEA]),
    Mode("(IX+d)", "(IX{0})", lambda: [DISP()], lambda v: [0xF0, lo(v)], lambda v: [0xF4, lo(v)]),
    Mode("(IY+d)", "(IY{0})", lambda: [DISP()], lambda v: [0xF1, lo(v)], lambda v: [0xF5, lo(v)]),
    Mode("(SP+d)", "(SP{0})", lambda: [DISP()], lambda v: [0xF2, lo(v)], lambda v: [0xF6, lo(v)]),
    Mode("(HL+A)", "(HL+A)", lambda: [], lambda v: [0xF3], lambda v: [0xF7]),
    Mode("(mn)", "({0})", lambda: [ABS()], lambda v: [0xE3, lo(v), hi(v)], lambda v: [0xEB, lo(v), hi(v)]),
    Mode("(FFn)", "({0})", lambda: [FFN()], lambda v: [0xE7, lo(v)], lambda v: [0xEF, lo(v)], direct=True),
]


INDEXED = ("(IX+d)", "(IY+d)", "(SP+d)", "(HL+A)")


def build():
    F = []

    def add(name, fmt, ops, enc, rel=None):
        F.append(Form(name, fmt, ops, enc, rel))

    def fixed(name, *bs):
        add(name, name, [], (lambda b: lambda pc, v: b)(bytes(bs)))

    def mem(name, fmt, extras, kind, tail, short=None, only=None):
        """one form per addressing mode.  name/fmt contain @M for the memory operand and @0 @1 for the
        further operands; tail(extra values) -> bytes after the prefix; short(n, extra values) -> the
        complete code of the dedicated (FFn) form of the first map"""
        for m in MODES:
            if only is not None and m.key not in only:
                continue
            mops = m.mkops()
            nm = len(mops)
            text = fmt.replace("@M", m.text)
            for i in range(len(extras)):
                text = text.replace("@%d" % i, "{%d}" % (nm + i))
            ops = mops + [e() for e in extras]

            def enc(pc, v, m=m, nm=nm):
                mv = v[0] if nm else None
                ev = v[nm:]
                if m.direct and short is not None:
                    s = short(lo(mv), ev)
                    if s is not None:
                        return bytes(s)
                pre = m.src(mv) if kind == "src" else m.dst(mv)
                return bytes(pre + tail(ev))
            add(name.replace("@M", m.key), text, ops, enc)

    def renum(names):
        return Enum([n for n, _ in names])

    def code(names, i):
        return names[i][1]

    # ---------------------------------------------------------------- 8-bit load
    for rn, r in R8:
        if rn != "A":
            fixed("LD A,%s" % rn, 0x20 | r)
            fixed("LD %s,A" % rn, 0x28 | r)
        for gn, g in R8:
            if rn != "A" and gn != "A":
                fixed("LD %s,%s" % (rn, gn), 0xF8 | g, 0x30 | r)
        add("LD %s,n" % rn, "LD %s,{0}" % rn, [N8()], (lambda o: lambda pc, v: bytes([o, lo(v[0])]))(0x30 | r))
        mem("LD %s,@M" % rn, "LD %s,@M" % rn, [], "src", (lambda o: lambda ev: [o])(0x28 | r),
            short=(lambda n, ev: [0x27, n]) if rn == "A" else None)
        mem("LD @M,%s" % rn, "LD @M,%s" % rn, [], "dst", (lambda o: lambda ev: [o])(0x20 | r),
            short=(lambda n, ev: [0x2F, n]) if rn == "A" else None)
    mem("LD @M,n", "LD @M,@0", [N8], "dst", lambda ev: [0x37, lo(ev[0])], short=lambda n, ev: [0x37, n, lo(ev[0])])
    mem("LDW @M,mn", "LDW @M,@0", [N16], "dst", lambda ev: [0x3F, lo(ev[0]), hi(ev[0])],
        short=lambda n, ev: [0x3F, n, lo(ev[0]), hi(ev[0])])

    # ---------------------------------------------------------------- 16-bit load
    for rn, r in R16:
        add("LD %s,mn" % rn, "LD %s,{0}" % rn, [N16()],
            (lambda o: lambda pc, v: bytes([o, lo(v[0]), hi(v[0])]))(0x38 | r))
        if rn != "HL":
            fixed("LD HL,%s" % rn, 0x40 | r)
            fixed("LD %s,HL" % rn, 0x48 | r)
        for gn, g in R16:
            if rn != "HL" and gn != "HL":
                fixed("LD %s,%s" % (rn, gn), 0xF8 | g, 0x38 | r)
        mem("LD %s,@M" % rn, "LD %s,@M" % rn, [], "src", (lambda o: lambda ev: [o])(0x48 | r),
            short=(lambda n, ev: [0x47, n]) if rn == "HL" else None)
        mem("LD @M,%s" % rn, "LD @M,%s" % rn, [], "dst", (lambda o: lambda ev: [o])(0x40 | r),
            short=(lambda n, ev: [0x4F, n]) if rn == "HL" else None)
        mem("LDA %s,@M" % rn, "LDA %s,@M" % rn, [], "dst", (lambda o: lambda ev: [o])(0x38 | r), only=INDEXED)
        mem("EX @M,%s" % rn, "EX @M,%s" % rn, [], "src", (lambda o: lambda ev: [o])(0x50 | r))
    for qn, q in Q16:
        fixed("PUSH " + qn, 0x50 | q)
        fixed("POP " + qn, 0x58 | q)

    # ---------------------------------------------------------------- exchange, block
    fixed("EX DE,HL", 0x08)
    fixed("EX AF,AF'", 0x09)
    fixed("EXX", 0x0A)
    for i, m in enumerate(["LDI", "LDIR", "LDD", "LDDR", "CPI", "CPIR", "CPD", "CPDR"]):
        fixed(m, 0xFE, 0x58 | i)

    # ---------------------------------------------------------------- 8-bit arithmetic / logic
    for i, m in enumerate(ALU):
        add("%s A,n" % m, "%s A,{0}" % m, [N8()], (lambda o: lambda pc, v: bytes([o, lo(v[0])]))(0x68 | i))
        for gn, g in R8:
            fixed("%s A,%s" % (m, gn), 0xF8 | g, 0x60 | i)
            if gn != "A":
                add("%s %s,n" % (m, gn), "%s %s,{0}" % (m, gn), [N8()],
                    (lambda p, o: lambda pc, v: bytes([p, o, lo(v[0])]))(0xF8 | g, 0x68 | i))
        mem("%s A,@M" % m, "%s A,@M" % m, [], "src", (lambda o: lambda ev: [o])(0x60 | i),
            short=(lambda o: lambda n, ev: [o, n])(0x60 | i))
        mem("%s @M,n" % m, "%s @M,@0" % m, [N8], "dst", (lambda o: lambda ev: [o, lo(ev[0])])(0x68 | i))
        # 16 bit
        add("%s HL,mn" % m, "%s HL,{0}" % m, [N16()],
            (lambda o: lambda pc, v: bytes([o, lo(v[0]), hi(v[0])]))(0x78 | i))
        for gn, g in R16:
            fixed("%s HL,%s" % (m, gn), 0xF8 | g, 0x70 | i)
        mem("%s HL,@M" % m, "%s HL,@M" % m, [], "src", (lambda o: lambda ev: [o])(0x70 | i),
            short=(lambda o: lambda n, ev: [o, n])(0x70 | i))
    for xn, x in IXR:
        add("ADD %s,mn" % xn, "ADD %s,{0}" % xn, [N16()],
            (lambda o: lambda pc, v: bytes([o, lo(v[0]), hi(v[0])]))(0x14 | x))
        for gn, g in R16:
            fixed("ADD %s,%s" % (xn, gn), 0xF8 | g, 0x14 | x)
        mem("ADD %s,@M" % xn, "ADD %s,@M" % xn, [], "src", (lambda o: lambda ev: [o])(0x14 | x))
    for m, o in (("INC", 0x80), ("DEC", 0x88)):
        for rn, r in R8:
            fixed("%s %s" % (m, rn), o | r)
        for rn, r in R16:
            fixed("%s %s" % (m, rn), o | 0x10 | r)
        mem("%s @M" % m, "%s @M" % m, [], "src", (lambda oo: lambda ev: [oo])(o | 7),
            short=(lambda oo: lambda n, ev: [oo, n])(o | 7))
        mem("%sW @M" % m, "%sW @M" % m, [], "src", (lambda oo: lambda ev: [oo])(o | 0x17),
            short=(lambda oo: lambda n, ev: [oo, n])(o | 0x17))
    add("INCX (FFn)", "INCX ({0})", [FFN()], lambda pc, v: bytes([0x07, lo(v[0])]))
    add("DECX (FFn)", "DECX ({0})", [FFN()], lambda pc, v: bytes([0x0F, lo(v[0])]))
    fixed("DAA A", 0x0B)
    fixed("CPL A", 0x10)
    fixed("NEG A", 0x11)
    fixed("RCF", 0x0C)
    fixed("SCF", 0x0D)
    fixed("CCF", 0x0E)
    for m, o in (("MUL", 0x12), ("DIV", 0x13)):
        add("%s HL,n" % m, "%s HL,{0}" % m, [N8()], (lambda oo: lambda pc, v: bytes([oo, lo(v[0])]))(o))
        for gn, g in R8:
            fixed("%s HL,%s" % (m, gn), 0xF8 | g, o)
        mem("%s HL,@M" % m, "%s HL,@M" % m, [], "src", (lambda oo: lambda ev: [oo])(o))

    # ---------------------------------------------------------------- rotate / shift, digit rotate
    for i, m in enumerate(SHIFT):
        fixed(m + "A", 0xA0 | i)
        for gn, g in R8:
            fixed("%s %s" % (m, gn), 0xF8 | g, 0xA0 | i)
        mem("%s @M" % m, "%s @M" % m, [], "src", (lambda o: lambda ev: [o])(0xA0 | i))
    mem("RLD @M", "RLD @M", [], "src", lambda ev: [0x10])
    mem("RRD @M", "RRD @M", [], "src", lambda ev: [0x11])

    # ---------------------------------------------------------------- bit manipulation
    for m, o, has_short in (("BIT", 0xA8, True), ("RES", 0xB0, True), ("SET", 0xB8, True), ("TSET", 0x18, False)):
        for gn, g in R8:
            add("%s b,%s" % (m, gn), "%s {0},%s" % (m, gn), [BITN()],
                (lambda p, oo: lambda pc, v: bytes([p, oo | v[0]]))(0xF8 | g, o))
        mem("%s b,@M" % m, "%s @0,@M" % m, [BITN], "src", (lambda oo: lambda ev: [oo | ev[0]])(o),
            short=(lambda oo: lambda n, ev: [oo | ev[0], n])(o) if has_short else None)

    # ---------------------------------------------------------------- jump, call, return
    add("JP mn", "JP {0}", [A16()], lambda pc, v: bytes([0x1A, lo(v[0]), hi(v[0])]))
    add("CALL mn", "CALL {0}", [A16()], lambda pc, v: bytes([0x1C, lo(v[0]), hi(v[0])]))
    add("JP cc,mn", "JP {0},{1}", [renum(CC_NOT_T), A16()],
        lambda pc, v: bytes([0xEB, lo(v[1]), hi(v[1]), 0xC0 | code(CC_NOT_T, v[0])]))
    add("CALL cc,mn", "CALL {0},{1}", [renum(CC_NOT_T), A16()],
        lambda pc, v: bytes([0xEB, lo(v[1]), hi(v[1]), 0xD0 | code(CC_NOT_T, v[0])]))
    for m in MODES:
        if m.key in ("(mn)", "(FFn)"):
            continue        # JP (mn) would read as the address itself - written without parentheses above
        mops = m.mkops()
        nm = len(mops)
        for mn_, base in (("JP", 0xC0), ("CALL", 0xD0)):
            add("%s %s" % (mn_, m.key), "%s %s" % (mn_, m.text), m.mkops(),
                (lambda mm, n_, b: lambda pc, v: bytes(mm.dst(v[0] if n_ else None) + [b | 8]))(m, nm, base))
            add("%s cc,%s" % (mn_, m.key), "%s {%d},%s" % (mn_, nm, m.text), m.mkops() + [renum(CC_NOT_T)],
                (lambda mm, n_, b: lambda pc, v: bytes(mm.dst(v[0] if n_ else None)
                                                       + [b | code(CC_NOT_T, v[n_])]))(m, nm, base))
    rel8 = (0, lambda b: sx(b[1], 8))
    add("JR $+2+d", "JR {0}", [Rel(-128, 127, 2)], lambda pc, v: bytes([0xC8, lo(v[0])]), rel8)
    add("JR cc,$+2+d", "JR {0},{1}", [renum(CC), Rel(-128, 127, 2)],
        lambda pc, v: bytes([0xC0 | code(CC, v[0]), lo(v[1])]), (1, lambda b: sx(b[1], 8)))
    add("DJNZ $+2+d", "DJNZ {0}", [Rel(-128, 127, 2)], lambda pc, v: bytes([0x18, lo(v[0])]), rel8)
    add("DJNZ BC,$+2+d", "DJNZ BC,{0}", [Rel(-128, 127, 2)], lambda pc, v: bytes([0x19, lo(v[0])]), rel8)
    fixed("RET", 0x1E)
    fixed("RETI", 0x1F)
    add("RET cc", "RET {0}", [renum(CC_NOT_T)], lambda pc, v: bytes([0xFE, 0xD0 | code(CC_NOT_T, v[0])]))

    # ---------------------------------------------------------------- CPU control
    fixed("NOP", 0x00)
    fixed("HALT", 0x01)
    fixed("DI", 0x02)
    fixed("EI", 0x03)
    fixed("SWI", 0xFF)
    return F


ISAS = [
    Isa("TLCS-90", "90C141", build(), "intel", pcsym="$", slot=16, base=0x7800, offsets=[0, 1, 5],
        golden=[("t_tlcs90", {"90c141": True}), ("t_fl90", {"90c141": True})]),
]
