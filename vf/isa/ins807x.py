"""National Semiconductor INS8070 series (SC/MP III: INS8070 / 8072 / 8073) reference encoder - National
"INS8070-Series Microprocessor Family" data sheet (October 1980), instruction set summary and opcode table.
Written from National's definition, not from code807x.c.

Registers: A, E (together the 16-bit EA), T (16 bit), S (status), pointers PC (P0), SP (P1), P2, P3.

Memory reference instructions    oooo o mmm  [operand byte(s)]
  mmm  0 PC-relative   1 SP-relative   2 P2-relative   3 P3-relative      (signed 8-bit displacement)
       4 immediate (one byte for A, two bytes low/high for EA and T)
       5 direct: one byte xx, addresses FFxx (on-chip RAM / top page)
       6 auto-indexed @disp,P2      7 auto-indexed @disp,P3
  ooooo  80 LD EA   88 ST EA   90 ILD A   98 DLD A   A0 LD T   B0 ADD EA   B8 SUB EA
         C0 LD A    C8 ST A    D0 AND A   D8 OR A    E0 XOR A  F0 ADD A    F8 SUB A
  ST, ILD and DLD have no immediate form.

Other opcodes
  00 NOP      01 XCH A,E   06 LD A,S    07 LD S,A    08 PUSH EA   09 LD T,EA   0A PUSH A    0B LD EA,T
  0C SR EA    0D DIV EA,T  0E SL A      0F SL EA     10+n CALL n
  20 JSR (PLI PC,=)   22/23 PLI P2/P3,=mn   24 JMP (LD PC,=)   25/26/27 LD SP/P2/P3,=mn
  2C MPY EA,T 2D BND disp  2E/2F SSM P2/P3
  30+p LD EA,p       38 POP A   39 AND S,=n   3A POP EA   3B OR S,=n   3C SR A   3D SRL A   3E RR A   3F RRL A
  40 LD A,E   44+p LD p,EA     48 LD E,A    4C+p XCH EA,p     50 AND A,E   54/56/57 PUSH PC/P2/P3
  58 OR A,E   5C RET (POP PC)  5E/5F POP P2/P3    60 XOR A,E   70 ADD A,E   78 SUB A,E
  64 BP   6C BZ   74 BRA   7C BNZ   (+0 PC-relative, +2 / +3 relative to P2 / P3)

Rules of the manufacturer modelled here
  * the program counter is incremented BEFORE each byte is fetched.  When the displacement of a PC-relative
    memory reference is added, PC addresses the displacement byte (the last byte of the instruction):
    EA = pc + 1 + disp.
  * a branch loads PC with PC + disp and the next opcode is fetched from PC + 1: target = pc + 2 + disp.
    For the same reason JMP / JSR (which load PC with the 16-bit operand) carry the destination address
    MINUS ONE (data sheet: "JMP addr" = LD PC,=addr-1; "JSR addr" = PLI PC,=addr-1).
  * address arithmetic is 16 bits wide (the 4K pages and the E-register displacement 80h of the SC/MP II
    are gone).

AS syntax (golden test t_807x; the AS manual has no 807x section): `disp,Pn`  `addr,PC`  `@disp,Pn`
`=n` or `#n`, a lone address = direct; default integer syntax C.

Not generated (and why)
  - direct addresses 00..FF (AS takes them as the low byte of FFxx; National defines FFxx only).  Addresses
    just below FF00 and beyond FFFF must be rejected: no addressing mode reaches them without a pointer.
  - JMP / JSR 0 (address minus one wraps; not defined by the data sheet)
  - SSM without operand, XCH E,A / XCH Pn,EA (operand orders AS accepts beyond National's)
  - LD PC,=mn written as such (AS may or may not apply the minus-one rule; National's JMP is modelled)
  - PC-relative operands of the conditional branches written as `disp,PC`
"""
from .common import Form, Int, Enum, Rel, Isa, sx

N8 = lambda: Int(-128, 255)
N16 = lambda: Int(-32768, 65535)
DISP = lambda: Int(-128, 127)


class SignedLit(Int):
    """displacement written with an explicit sign right after '@' (National's examples: @+1,P2 / @-1,P3).  There the
    plus is a unary sign, which AS's expression parser takes in front of a number only (`+5`; `+SYM` and `+(5)` give
    "wrong number of operands" on every target - unary plus is not among the documented operators): always written as
    a literal, never through a symbol"""
    kind = "lit"

    def __init__(self):
        Int.__init__(self, -128, 127, plus=True)


DISPP = SignedLit
DIRECT = lambda: Int(0xFF00, 0xFFFF)
PTR = ["PC", "SP", "P2", "P3"]


def lo(x):
    return x & 0xff


def hi(x):
    return (x >> 8) & 0xff


def build():
    F = []

    def add(name, fmt, ops, enc, rel=None):
        F.append(Form(name, fmt, ops, enc, rel))

    def fixed(name, *bs):
        add(name, name, [], (lambda b: lambda pc, v: b)(bytes(bs)))

    rel8 = (0, lambda b: sx(b[1], 8))

    # ------------------------------------------------------------ memory reference
    MEMREF = [("LD EA", 0x80, 16, True), ("ST EA", 0x88, 16, False), ("ILD A", 0x90, 8, False),
              ("DLD A", 0x98, 8, False), ("LD T", 0xA0, 16, True), ("ADD EA", 0xB0, 16, True),
              ("SUB EA", 0xB8, 16, True), ("LD A", 0xC0, 8, True), ("ST A", 0xC8, 8, False),
              ("AND A", 0xD0, 8, True), ("OR A", 0xD8, 8, True), ("XOR A", 0xE0, 8, True),
              ("ADD A", 0xF0, 8, True), ("SUB A", 0xF8, 8, True)]
    for m, op, size, imm in MEMREF:
        add(m + ",a,PC", m + ",{0},PC", [Rel(-128, 127, 1)],
            (lambda o: lambda pc, v: bytes([o, lo(v[0])]))(op), rel8)
        for pn, p in (("SP", 1), ("P2", 2), ("P3", 3)):
            add("%s,d,%s" % (m, pn), "%s,{0},%s" % (m, pn), [DISP()],
                (lambda o: lambda pc, v: bytes([o, lo(v[0])]))(op | p))
        for pn, p in (("P2", 6), ("P3", 7)):
            add("%s,@d,%s" % (m, pn), "%s,@{0},%s" % (m, pn), [DISP()],
                (lambda o: lambda pc, v: bytes([o, lo(v[0])]))(op | p))
            add("%s,@+d,%s" % (m, pn), "%s,@{0},%s" % (m, pn), [DISPP()],
                (lambda o: lambda pc, v: bytes([o, lo(v[0])]))(op | p))
        add(m + ",FFxx", m + ",{0}", [DIRECT()], (lambda o: lambda pc, v: bytes([o, lo(v[0])]))(op | 5))
        if imm:
            for ch in "=#":
                if size == 8:
                    add("%s,%sn" % (m, ch), "%s,%s{0}" % (m, ch), [N8()],
                        (lambda o: lambda pc, v: bytes([o, lo(v[0])]))(op | 4))
                else:
                    add("%s,%smn" % (m, ch), "%s,%s{0}" % (m, ch), [N16()],
                        (lambda o: lambda pc, v: bytes([o, lo(v[0]), hi(v[0])]))(op | 4))

    # ------------------------------------------------------------ register, stack, shift
    for name, op in (("NOP", 0x00), ("XCH A,E", 0x01), ("LD A,S", 0x06), ("LD S,A", 0x07), ("PUSH EA", 0x08),
                     ("LD T,EA", 0x09), ("PUSH A", 0x0A), ("LD EA,T", 0x0B), ("SR EA", 0x0C), ("DIV EA,T", 0x0D),
                     ("SL A", 0x0E), ("SL EA", 0x0F), ("MPY EA,T", 0x2C), ("SSM P2", 0x2E), ("SSM P3", 0x2F),
                     ("POP A", 0x38), ("POP EA", 0x3A), ("SR A", 0x3C), ("SRL A", 0x3D), ("RR A", 0x3E),
                     ("RRL A", 0x3F), ("LD A,E", 0x40), ("LD E,A", 0x48), ("AND A,E", 0x50), ("PUSH PC", 0x54),
                     ("PUSH P2", 0x56), ("PUSH P3", 0x57), ("OR A,E", 0x58), ("RET", 0x5C), ("POP P2", 0x5E),
                     ("POP P3", 0x5F), ("XOR A,E", 0x60), ("ADD A,E", 0x70), ("SUB A,E", 0x78)):
        fixed(name, op)
    for i, pn in enumerate(PTR):
        fixed("LD EA,%s" % pn, 0x30 | i)
        fixed("LD %s,EA" % pn, 0x44 | i)
        fixed("XCH EA,%s" % pn, 0x4C | i)
    for ch in "=#":
        add("AND S,%sn" % ch, "AND S,%s{0}" % ch, [N8()], lambda pc, v: bytes([0x39, lo(v[0])]))
        add("OR S,%sn" % ch, "OR S,%s{0}" % ch, [N8()], lambda pc, v: bytes([0x3B, lo(v[0])]))
        for pn, p in (("SP", 1), ("P2", 2), ("P3", 3)):
            add("LD %s,%smn" % (pn, ch), "LD %s,%s{0}" % (pn, ch), [N16()],
                (lambda o: lambda pc, v: bytes([o, lo(v[0]), hi(v[0])]))(0x24 | p))
        for pn, p in (("P2", 2), ("P3", 3)):
            add("PLI %s,%smn" % (pn, ch), "PLI %s,%s{0}" % (pn, ch), [N16()],
                (lambda o: lambda pc, v: bytes([o, lo(v[0]), hi(v[0])]))(0x20 | p))

    # ------------------------------------------------------------ transfer of control
    add("JMP mn", "JMP {0}", [Int(1, 0xFFFF, rej_lo=False)],
        lambda pc, v: bytes([0x24, lo(v[0] - 1), hi(v[0] - 1)]))
    add("JSR mn", "JSR {0}", [Int(1, 0xFFFF, rej_lo=False)],
        lambda pc, v: bytes([0x20, lo(v[0] - 1), hi(v[0] - 1)]))
    add("CALL n", "CALL {0}", [Int(0, 15)], lambda pc, v: bytes([0x10 | v[0]]))
    add("BND a", "BND {0}", [Rel(-128, 127, 2)], lambda pc, v: bytes([0x2D, lo(v[0])]), rel8)
    for m, op in (("BP", 0x64), ("BZ", 0x6C), ("BRA", 0x74), ("BNZ", 0x7C)):
        add(m + " a", m + " {0}", [Rel(-128, 127, 2)], (lambda o: lambda pc, v: bytes([o, lo(v[0])]))(op), rel8)
        for pn, p in (("P2", 2), ("P3", 3)):
            add("%s d,%s" % (m, pn), "%s {0},%s" % (m, pn), [DISP()],
                (lambda o: lambda pc, v: bytes([o, lo(v[0])]))(op | p))
    return F


ISAS = [Isa("INS807x", "8070", build(), "c", pcsym="$", slot=8, base=0x1000, offsets=[0, 1, 4],
            golden=[("t_807x", {"8070": True})])]
