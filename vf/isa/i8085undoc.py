"""Intel 8085, the ten instructions Intel left out of the data book (CPU 8085UNDOC of the assembler).

Reference: the 8085's unpublished opcodes as they were disclosed for Intel's part (Dehnhardt/Sorensen,
"Unspecified 8085 op codes enhance programming", Electronics 1979; later listed in second-source
8085 data books):
     08  DSUB        HL <- HL - BC                 10  ARHL       HL arithmetic shift right
     18  RDEL        DE rotate left through CY      28  LDHI d8    DE <- HL + d8
     38  LDSI d8     DE <- SP + d8                  CB  RSTV       restart to 40h if V set
     D9  SHLX        (DE) <- HL                     ED  LHLX       HL <- (DE)
     DD  JNX5 a16    jump if X5 (K / UI) clear      FD  JX5 a16    jump if X5 (K / UI) set
Written from that list, not from code85.c.  Operand syntax (Intel style): doc/processor-specific-
hints.md section 8085UNDOC and tests/t_85 - the register argument of DSUB (B) and SHLX/LHLX (D) is
optional.  The alternative spellings JNK/JK and JNUI/JUI of other assemblers are not accepted by AS
(nor listed in its manual), so only JNX5/JX5 are generated; the Z80-style spellings (Z80SYNTAX ON)
are not generated.

The table also carries the complete documented 8085 set (imported from vf/isa/i8080.py), so that
every documented instruction is compared once more under the CPU name 8085UNDOC.
"""
from .common import Form, Isa
from .i8080 import build as build_8085, D8, A16, b1, b2, b3


def build():
    F = build_8085(True)
    for text, op in (("DSUB", 0x08), ("DSUB B", 0x08), ("ARHL", 0x10), ("RDEL", 0x18), ("RSTV", 0xCB),
                     ("SHLX", 0xD9), ("SHLX D", 0xD9), ("LHLX", 0xED), ("LHLX D", 0xED)):
        F.append(Form(text, text, [], b1(op)))
    F.append(Form("LDHI d8", "LDHI {0}", [D8()], b2(0x28)))
    F.append(Form("LDSI d8", "LDSI {0}", [D8()], b2(0x38)))
    F.append(Form("JNX5 a16", "JNX5 {0}", [A16()], b3(0xDD)))
    F.append(Form("JX5 a16", "JX5 {0}", [A16()], b3(0xFD)))
    return F


ISAS = [
    Isa("8085UNDOC", "8085UNDOC", build(), "intel", pcsym="$", slot=8, base=0x1000, offsets=[0, 1, 5],
        golden=[("t_85", {"8085undoc": True})]),
]
