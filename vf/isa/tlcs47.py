"""Toshiba TLCS-47 (TMP47C00 core) reference encoder - TLCS-47 series data book, "Instruction set"
(machine instruction list with object codes).  Written from Toshiba's definition, not from code47c00.c.

Toshiba notation recap
  #k   4-bit immediate           x   8-bit direct RAM address      y   4-bit direct RAM address (page 0)
  %p   port address              b   bit number 0..3               a   ROM address
One-byte codes are given in full; the two-byte groups are
  38 : 0kH ADD A,#k   1k SUBR A,#k  2k OR A,#k    3k AND A,#k   4k ADD @HL,#k  5k SUBR @HL,#k  6k OR @HL,#k
       7k AND @HL,#k  8k ADD L,#k   9k CMPR L,#k  Ck ADD H,#k   Dk CMPR H,#k
  39 : bb yyyy  with 00 SET, 01 CLR, 10 TEST, 11 TESTP in bits 7..6 (RAM bit y.b)
  3B : the same for port bits %p.b
  3A : 0010pppp IN %p,A   0110pppp IN %p,@HL   (ports 00H..0FH)
  36 : 01rrrrrr EICLR, 10rrrrrr DICLR, 11rrrrrr CLR IL,r
  2C kp OUT #k,%p    2D ky ST #k,y    2E ky CMPR y,#k    2F ky ADD y,#k
Branches: BSS 10dddddd (target in the 64-byte page of the following instruction), BS 0110aaaa aaaaaaaa,
CALL 00100aaa aaaaaaaa (11-bit address), CALLS 0111nnnn (address 8n+6, n = 0: 0086H).

AS syntax (golden test t_47c00): immediates #k, ports %p, @HL / @HL+ / @HL- / @DC / @DC+ / @L.
A 4-bit immediate is accepted from -8 to 15 (two's complement or unsigned reading).

Not generated (and why)
  - OUT A,%p / OUT @HL,%p and IN with the extended port addresses 10H..1FH: I do not know Toshiba's bit
    assignment of the second byte with certainty (my reconstruction 3A 101p pppp / 111p pppp disagrees with
    the repository's golden image, which has 3A 84 for OUT A,%0) - left out rather than copied
  - the "extended instruction set" macros of STDDEF47.INC and the built-ins B, LD HL,#kk, ROLC/RORC A,n
  - BSL and the DMB / SPW / STK instructions of the TLCS-470/470A (not part of the 47C00)
  - direct addresses >= 100H (bank selected through DMB; AS only warns), negative addresses
  - LD/XCH HL,x with x not a multiple of 4
  - CALLS operands that are no subroutine entry (only the 16 entries are valid or beyond the range)
  - CALL from an address >= 800H: all instructions are placed below 7F8H (base 20H, 250 slots of 8).  AS
    takes the 11-bit operand of CALL as an address in the 2K page of the CALL instruction itself (from 850H it
    rejects CALL 123H and assembles CALL 900H as 21 00); as far as I know Toshiba's description the
    subroutine entry is always in 000H..7FFH - not settled here, the situation is excluded by construction
  - BS / CALL beyond the 4K ROM of the 47C00 (BS then reaches every address, so it is modelled as an
    absolute 12-bit operand)
"""
from .common import Form, Int, Enum, Rel, Isa


def k4():
    return Int(-8, 15)


def x8(step=1):
    return Int(0, 255 if step == 1 else 252, rej_lo=False, rej_hi=False, step=step)


def y4():
    return Int(0, 15, rej_lo=False)


def b2():
    return Int(0, 3)


def p4():
    return Int(0, 15, rej_lo=False)


class Page6(Rel):
    """6-bit address inside the 64-byte ROM page of pc+1; value = offset from that page's base"""

    def __init__(self):
        Rel.__init__(self, 0, 63, 0, 1, band=6)

    def target(self, v, pc):
        return ((pc + 1) & ~0x3f) + v

    def from_target(self, t, pc):
        return t - ((pc + 1) & ~0x3f)


ENTRIES = [0x86] + [8 * n + 6 for n in range(1, 16)]


class Entry(Int):
    """address of one of the 16 CALLS entries.  Rejectable: addresses beyond 86H and the address 0006H,
    which is what n = 0 would be by the 8n+6 rule but is not an entry (n = 0 calls 0086H); other
    addresses below 86H are not generated"""

    def __init__(self):
        Int.__init__(self, 0x0E, 0x86, rej_lo=False, holes=set(range(0x0E, 0x87)) - set(ENTRIES), far=False)

    def classify(self, v, pc=0, vals=None):
        if v in ENTRIES:
            return "ok"
        return "rej" if v == 6 or v > 0x86 else "excl"

    def boundary_ok(self):
        return list(ENTRIES)

    def boundary_rej(self):
        return [0x87, 0x88, 0x8E, 6, 0x10086]

    def draw_ok(self, d):
        return d.choice(ENTRIES)

    def draw_rej(self, d):
        return d.choice(self.boundary_rej() + [0x86 + 8 * d.int(1, 400)])


def build():
    F = []

    def add(name, fmt, ops, enc, rel=None):
        F.append(Form(name, fmt, ops, enc, rel))

    def fixed(name, *bs):
        add(name, name, [], (lambda b: lambda pc, v: b)(bytes(bs)))

    def one_k(name, fmt, op):
        add(name, fmt, [k4()], lambda pc, v: bytes([op | (v[0] & 15)]))

    def two_k(name, fmt, op1, op2):
        add(name, fmt, [k4()], lambda pc, v: bytes([op1, op2 | (v[0] & 15)]))

    fixed("NOP", 0x00)
    # ---- move
    fixed("LD A,@HL", 0x0C)
    add("LD A,x", "LD A,{0}", [x8()], lambda pc, v: bytes([0x3C, v[0]]))
    add("LD HL,x", "LD HL,{0}", [x8(4)], lambda pc, v: bytes([0x28, v[0]]))
    one_k("LD A,#k", "LD A,#{0}", 0x40)
    one_k("LD H,#k", "LD H,#{0}", 0xC0)
    one_k("LD L,#k", "LD L,#{0}", 0xE0)
    fixed("LDL A,@DC", 0x33)
    fixed("LDH A,@DC+", 0x32)
    fixed("ST A,@HL", 0x0F)
    fixed("ST A,@HL+", 0x1A)
    fixed("ST A,@HL-", 0x1B)
    add("ST A,x", "ST A,{0}", [x8()], lambda pc, v: bytes([0x3F, v[0]]))
    one_k("ST #k,@HL+", "ST #{0},@HL+", 0xF0)
    add("ST #k,y", "ST #{0},{1}", [k4(), y4()], lambda pc, v: bytes([0x2D, (v[0] & 15) << 4 | v[1]]))
    fixed("MOV H,A", 0x10)
    fixed("MOV L,A", 0x11)
    fixed("XCH A,H", 0x30)
    fixed("XCH A,L", 0x31)
    fixed("XCH A,EIR", 0x13)
    fixed("XCH A,@HL", 0x0D)
    add("XCH A,x", "XCH A,{0}", [x8()], lambda pc, v: bytes([0x3D, v[0]]))
    add("XCH HL,x", "XCH HL,{0}", [x8(4)], lambda pc, v: bytes([0x29, v[0]]))
    # ---- input / output
    # ports 00H..0FH only; see "Not generated"
    for m, base in (("IN %p,A", 0x20), ("IN %p,@HL", 0x60)):
        add(m, m.replace("%p", "%{0}"), [Int(0, 15, rej_lo=False, rej_hi=False)],
            (lambda o: lambda pc, v: bytes([0x3A, o | v[0]]))(base))
    add("OUT #k,%p", "OUT #{0},%{1}", [k4(), p4()], lambda pc, v: bytes([0x2C, (v[0] & 15) << 4 | v[1]]))
    fixed("OUTB @HL", 0x12)
    # ---- arithmetic
    fixed("CMPR A,@HL", 0x16)
    add("CMPR A,x", "CMPR A,{0}", [x8()], lambda pc, v: bytes([0x3E, v[0]]))
    add("CMPR y,#k", "CMPR {0},#{1}", [y4(), k4()], lambda pc, v: bytes([0x2E, (v[1] & 15) << 4 | v[0]]))
    two_k("CMPR H,#k", "CMPR H,#{0}", 0x38, 0xD0)
    two_k("CMPR L,#k", "CMPR L,#{0}", 0x38, 0x90)
    one_k("CMPR A,#k", "CMPR A,#{0}", 0xD0)
    fixed("INC A", 0x08)
    fixed("INC L", 0x18)
    fixed("INC @HL", 0x0A)
    fixed("DEC A", 0x09)
    fixed("DEC L", 0x19)
    fixed("DEC @HL", 0x0B)
    fixed("ADDC A,@HL", 0x15)
    fixed("ADD A,@HL", 0x17)
    two_k("ADD A,#k", "ADD A,#{0}", 0x38, 0x00)
    two_k("ADD H,#k", "ADD H,#{0}", 0x38, 0xC0)
    two_k("ADD L,#k", "ADD L,#{0}", 0x38, 0x80)
    two_k("ADD @HL,#k", "ADD @HL,#{0}", 0x38, 0x40)
    add("ADD y,#k", "ADD {0},#{1}", [y4(), k4()], lambda pc, v: bytes([0x2F, (v[1] & 15) << 4 | v[0]]))
    fixed("SUBRC A,@HL", 0x14)
    two_k("SUBR A,#k", "SUBR A,#{0}", 0x38, 0x10)
    two_k("SUBR @HL,#k", "SUBR @HL,#{0}", 0x38, 0x50)
    # ---- logic
    fixed("ROLC A", 0x05)
    fixed("RORC A", 0x07)
    fixed("AND A,@HL", 0x1E)
    two_k("AND A,#k", "AND A,#{0}", 0x38, 0x30)
    two_k("AND @HL,#k", "AND @HL,#{0}", 0x38, 0x70)
    fixed("OR A,@HL", 0x1D)
    two_k("OR A,#k", "OR A,#{0}", 0x38, 0x20)
    two_k("OR @HL,#k", "OR @HL,#{0}", 0x38, 0x60)
    fixed("XOR A,@HL", 0x1F)
    # ---- bit manipulation
    fixed("TEST CF", 0x06)
    fixed("TESTP CF", 0x04)
    fixed("TESTP ZF", 0x0E)
    fixed("TESTP GF", 0x01)
    fixed("CLR GF", 0x02)
    fixed("SET GF", 0x03)
    fixed("SET @L", 0x34)
    fixed("CLR @L", 0x35)
    fixed("TEST @L", 0x37)
    add("SET @HL,b", "SET @HL,{0}", [b2()], lambda pc, v: bytes([0x50 | v[0]]))
    add("CLR @HL,b", "CLR @HL,{0}", [b2()], lambda pc, v: bytes([0x54 | v[0]]))
    add("TEST @HL,b", "TEST @HL,{0}", [b2()], lambda pc, v: bytes([0x58 | v[0]]))
    add("TEST A,b", "TEST A,{0}", [b2()], lambda pc, v: bytes([0x5C | v[0]]))
    for i, m in enumerate(["SET", "CLR", "TEST", "TESTP"]):
        add(m + " y,b", m + " {0},{1}", [y4(), b2()],
            (lambda i: lambda pc, v: bytes([0x39, i << 6 | v[1] << 4 | v[0]]))(i))
        add(m + " %p,b", m + " %{0},{1}", [p4(), b2()],
            (lambda i: lambda pc, v: bytes([0x3B, i << 6 | v[1] << 4 | v[0]]))(i))
    for m, hi in (("EICLR", 0x40), ("DICLR", 0x80), ("CLR", 0xC0)):
        add(m + " IL,r", m + " IL,{0}", [Int(0, 63, rej_lo=False)], (lambda h: lambda pc, v: bytes([0x36, h | v[0]]))(hi))
    # ---- branch / subroutine
    add("BSS a", "BSS {0}", [Page6()], lambda pc, v: bytes([0x80 | (v[0] & 0x3f)]), (0, lambda b: b[0] & 0x3f))
    add("BS a", "BS {0}", [Int(0, 0xFFF, rej_lo=False)], lambda pc, v: bytes([0x60 | v[0] >> 8, v[0] & 0xff]))
    add("CALL a", "CALL {0}", [Int(0, 0x7FF, rej_lo=False)], lambda pc, v: bytes([0x20 | v[0] >> 8, v[0] & 0xff]))
    add("CALLS a", "CALLS {0}", [Entry()],
        lambda pc, v: bytes([0x70 | ENTRIES.index(v[0])]))
    fixed("RET", 0x2A)
    fixed("RETI", 0x2B)
    return F


ISAS = [
    Isa("TLCS47", "47C00", build(), "intel", pcsym="$", slot=8, base=0x20, maxaddr=0xfff, offsets=[0, 1, 5],
        page_end=(64, 63), golden=[("t_47c00", {"470ac00": True})]),
]
