"""Motorola MC6809 reference encoder.

Source of truth: MC6809 / MC6809E data sheet and the MC6809-MC6809E Microprocessor Programming Manual
(opcode map pages 1-3 with the page prebytes $10 / $11, table "Indexed addressing postbyte register
bit assignments", TFR/EXG and PSH/PUL postbyte layouts).  Written from those definitions, not from
code6809.c.

Operand spelling accepted by AS (taken from tests/t_full09 for syntax only):
  #n                 immediate (8 or 16 bit according to the register)
  <a   >a            forced direct / forced extended; without a prefix an address whose high byte
                     equals the assumed direct page register (ASSUME DPR, default 0) is direct
  ,R  ,R+ ,R++ ,-R ,--R      R = X Y U S
  A,R  B,R  D,R      accumulator offset
  <<n,R  <n,R  >n,R  constant offset of 5 / 8 / 16 bits (explicit size prefixes)
  <t,PCR  >t,PCR     program counter relative, t is the TARGET address, 8 / 16 bit offset
  [..]               indirect variant of the above (not for 5-bit offsets, ,R+ and ,-R), [a] extended indirect

Not generated: constant offsets WITHOUT size prefix (the assembler chooses the size; "0,R" may become
",R"), the spelling t,PC (Motorola's assembler takes a literal offset there, AS a target), the
Hitachi 6309 extensions, register lists written as immediate (#n) or as ALL, CCR/DPR/SP spellings,
TFR/EXG between registers of different size (undefined by Motorola).
The indirect forms [,R+] and [,-R] do not exist ("not allowed"): they are generated as must-be-rejected cases.

16-bit relative distances (LBRA, LBSR, LBcc, >t,PCR): the data sheet interprets the effective address
modulo 2^16, so every target in the 64K map is reachable and nothing is rejectable.
"""
from .common import Form, Int, Enum, Rel, Op, Isa, sx

IDXREG = ["X", "Y", "U", "S"]

# read-modify-write column: low nibble in $0x (direct) $6x (indexed) $7x (extended), $4x / $5x for A / B
RMW = {"NEG": 0x0, "COM": 0x3, "LSR": 0x4, "ROR": 0x6, "ASR": 0x7, "ASL": 0x8, "LSL": 0x8, "ROL": 0x9, "DEC": 0xA,
       "INC": 0xC, "TST": 0xD, "CLR": 0xF}
# 8-bit accumulator operations: low nibble in $8x-$Bx (A) and $Cx-$Fx (B); columns imm, direct, indexed, extended
ACC = {"SUB": 0x0, "CMP": 0x1, "SBC": 0x2, "AND": 0x4, "BIT": 0x5, "LD": 0x6, "ST": 0x7, "EOR": 0x8, "ADC": 0x9,
       "OR": 0xA, "ADD": 0xB}
# 16-bit operations: (prebyte or None, opcode of the immediate column or of the slot where it would be, has immediate)
W16 = {
    "SUBD": (None, 0x83, True), "CMPX": (None, 0x8C, True), "LDX": (None, 0x8E, True), "STX": (None, 0x8F, False),
    "ADDD": (None, 0xC3, True), "LDD": (None, 0xCC, True), "STD": (None, 0xCD, False), "LDU": (None, 0xCE, True),
    "STU": (None, 0xCF, False),
    "CMPD": (0x10, 0x83, True), "CMPY": (0x10, 0x8C, True), "LDY": (0x10, 0x8E, True), "STY": (0x10, 0x8F, False),
    "LDS": (0x10, 0xCE, True), "STS": (0x10, 0xCF, False),
    "CMPU": (0x11, 0x83, True), "CMPS": (0x11, 0x8C, True),
}
LEA = {"LEAX": 0x30, "LEAY": 0x31, "LEAS": 0x32, "LEAU": 0x33}
INHERENT = {"NOP": (0x12,), "SYNC": (0x13,), "DAA": (0x19,), "SEX": (0x1D,), "RTS": (0x39,), "ABX": (0x3A,),
            "RTI": (0x3B,), "MUL": (0x3D,), "SWI": (0x3F,), "SWI2": (0x10, 0x3F), "SWI3": (0x11, 0x3F)}
BRANCH = {"BRA": 0x20, "BRN": 0x21, "BHI": 0x22, "BLS": 0x23, "BHS": 0x24, "BCC": 0x24, "BLO": 0x25, "BCS": 0x25,
          "BNE": 0x26, "BEQ": 0x27, "BVC": 0x28, "BVS": 0x29, "BPL": 0x2A, "BMI": 0x2B, "BGE": 0x2C, "BLT": 0x2D,
          "BGT": 0x2E, "BLE": 0x2F}
# TFR / EXG register numbers
R16 = {"D": 0, "X": 1, "Y": 2, "U": 3, "S": 4, "PC": 5}
R8 = {"A": 8, "B": 9, "CC": 10, "DP": 11}
# PSH / PUL postbyte bits, in the order of the data sheet (bit 0 first); bit 6 is the other stack pointer
STACKBITS = ["CC", "A", "B", "DP", "X", "Y", None, "PC"]


class Wrap16(Rel):
    """16-bit relative distance: effective address modulo 2^16, every distance encodable, none rejectable"""

    def __init__(self, pcoff):
        Rel.__init__(self, -32768, 32767, pcoff, 1, band=8)

    def target(self, v, pc):
        return (pc + self.pcoff + v) & 0xffff

    def from_target(self, t, pc):
        return sx(t - pc - self.pcoff, 16)

    def classify(self, v, pc=0, vals=None):
        return "ok" if self.lo <= v <= self.hi else "excl"

    def boundary_ok(self):
        return [0, 1, -1, -self.pcoff, self.lo, self.lo + 1, self.hi, self.hi - 1, 127, 128, -128, -129,
                0x1000, -0x1000, 0x7000, -0x7000]

    def boundary_rej(self):
        return []

    def opclass(self, v):
        for nm, ref in (("lo", self.lo), ("hi", self.hi), ("8bit-hi", 127), ("8bit-lo", -128)):
            if abs(v - ref) <= 1:
                return "rel16@%s%+d" % (nm, v - ref)
        return None

    def draw_ok(self, d):
        if d.int(0, 9) < 4:
            return d.choice(self.boundary_ok())
        return d.int(self.lo, self.hi)

    def draw_rej(self, d):
        return None


class Steps(Op):
    """auto increment / decrement step of the INDIRECT forms, written as one or two '+' / '-' signs: only a step
    of two exists ([,R++] [,--R]); the step of one must be rejected"""
    kind = "enum"

    def __init__(self, ch):
        self.ch = ch
        self.names = ["", ch, ch * 2]
        self.name = None

    def classify(self, v, pc=0, vals=None):
        return {2: "ok", 1: "rej"}.get(v, "excl")

    def boundary_ok(self):
        return [2]

    def boundary_rej(self):
        return [1]

    def opclass(self, v):
        return "step%d" % v

    def draw_ok(self, d):
        return 2

    def draw_rej(self, d):
        return 1

    def render(self, v, syntax, hexa):
        return self.ch * v


IMM8 = lambda: Int(-128, 255)
IMM16 = lambda: Int(-32768, 65535)
OFF5 = lambda: Int(-16, 15)
OFF8 = lambda: Int(-128, 127)
OFF16 = lambda: Int(-32768, 65535)      # 16-bit two's complement offset, address arithmetic modulo 2^16
ADDR = lambda: Int(0, 65535, rej_lo=False)
# t_full09 (golden cross-check) runs with ASSUME DPR:8 - addresses of that page are not generated without prefix
AUTO_EXT = lambda: Int(256, 65535, rej_lo=False, holes=range(0x800, 0x900))
AUTO_DIR = lambda: Int(0, 255, rej_lo=False, rej_hi=False)     # 256 is the extended form
DIRECT = lambda: Int(0, 255, rej_lo=False)                     # '<': the address must lie in the direct page (DPR=0)


def hi(x):
    return (x >> 8) & 0xff


def lo(x):
    return x & 0xff


def w(x):
    return bytes([hi(x), lo(x)])


def build():
    F = []

    def add(name, fmt, ops, enc, rel=None, dontcare=None):
        F.append(Form(name, fmt, ops, enc, rel, dontcare=dontcare))

    def indexed(m, opc):
        """all indexed forms of mnemonic m; opc = opcode bytes (with prebyte) of the indexed column"""
        opc = bytes(opc)
        n = len(opc)
        R = lambda: Enum(IDXREG)

        def pb(base):          # postbyte 1RRxxxxx from the register operand at vals[ri]
            return lambda ri: (lambda pc, v: opc + bytes([0x80 | v[ri] << 5 | base]))

        for ind, l, r in ((0, "", ""), (0x10, "[", "]")):
            tag = " ind" if ind else ""
            add(m + tag + " ,R", m + " " + l + ",{0}" + r, [R()], pb(0x04 | ind)(0))
            for acc, code in (("A", 0x06), ("B", 0x05), ("D", 0x0B)):
                add("%s%s %s,R" % (m, tag, acc), "%s %s%s,{0}%s" % (m, l, acc, r), [R()], pb(code | ind)(0))
            if not ind:
                add(m + " ,R++", m + " ,{0}++", [R()], pb(0x01)(0))
                add(m + " ,--R", m + " ,--{0}", [R()], pb(0x03)(0))
            else:
                # indirect: by two only; [,R+] and [,-R] are "not allowed" (data sheet, indexed addressing table)
                add(m + " ind ,R++", m + " [,{0}{1}]", [R(), Steps("+")], pb(0x11)(0))
                add(m + " ind ,--R", m + " [,{1}{0}]", [R(), Steps("-")], pb(0x13)(0))
            add(m + tag + " n8,R", m + " " + l + "<{0},{1}" + r, [OFF8(), R()],
                (lambda i: lambda pc, v: opc + bytes([0x88 | v[1] << 5 | i, lo(v[0])]))(ind))
            add(m + tag + " n16,R", m + " " + l + ">{0},{1}" + r, [OFF16(), R()],
                (lambda i: lambda pc, v: opc + bytes([0x89 | v[1] << 5 | i]) + w(v[0]))(ind))
            # program counter relative: the register field of the postbyte is don't care (1xx0110y)
            add(m + tag + " t8,PCR", m + " " + l + "<{0},PCR" + r, [Rel(-128, 127, n + 2)],
                (lambda i: lambda pc, v: opc + bytes([0x8C | i, lo(v[0])]))(ind),
                rel=(0, (lambda k: lambda b: sx(b[k], 8))(n + 1)), dontcare=bytes(n) + b"\x60")
            add(m + tag + " t16,PCR", m + " " + l + ">{0},PCR" + r, [Wrap16(n + 3)],
                (lambda i: lambda pc, v: opc + bytes([0x8D | i]) + w(v[0]))(ind),
                rel=(0, (lambda k: lambda b: sx(b[k] << 8 | b[k + 1], 16))(n + 1)), dontcare=bytes(n) + b"\x60")
        add(m + " ,R+", m + " ,{0}+", [R()], pb(0x00)(0))
        add(m + " ,-R", m + " ,-{0}", [R()], pb(0x02)(0))
        add(m + " n5,R", m + " <<{0},{1}", [OFF5(), R()],
            lambda pc, v: opc + bytes([v[1] << 5 | (v[0] & 0x1f)]))
        add(m + " [ext]", m + " [{0}]", [ADDR()], lambda pc, v: opc + bytes([0x9F]) + w(v[0]))

    def memory(m, pre, d_op, x_op, e_op):
        """direct / indexed / extended columns"""
        pre = bytes(pre)
        add(m + " <dir", m + " <{0}", [DIRECT()], lambda pc, v: pre + bytes([d_op, lo(v[0])]))
        add(m + " >ext", m + " >{0}", [ADDR()], lambda pc, v: pre + bytes([e_op]) + w(v[0]))
        add(m + " dir", m + " {0}", [AUTO_DIR()], lambda pc, v: pre + bytes([d_op, lo(v[0])]))
        add(m + " ext", m + " {0}", [AUTO_EXT()], lambda pc, v: pre + bytes([e_op]) + w(v[0]))
        indexed(m, pre + bytes([x_op]))

    # ---- inherent
    for m, ops in INHERENT.items():
        add(m, m, [], (lambda o: lambda pc, v: bytes(o))(ops))
    for m, nib in RMW.items():
        add(m + "A", m + "A", [], (lambda o: lambda pc, v: bytes([o]))(0x40 | nib))
        add(m + "B", m + "B", [], (lambda o: lambda pc, v: bytes([o]))(0x50 | nib))
        memory(m, b"", nib, 0x60 | nib, 0x70 | nib)
    memory("JMP", b"", 0x0E, 0x6E, 0x7E)
    memory("JSR", b"", 0x9D, 0xAD, 0xBD)

    # ---- 8-bit accumulator operations
    for stem, nib in ACC.items():
        for acc, col in (("A", 0x80), ("B", 0xC0)):
            m = stem + acc
            if stem != "ST":
                add(m + " #imm8", m + " #{0}", [IMM8()], (lambda o: lambda pc, v: bytes([o, lo(v[0])]))(col | nib))
            memory(m, b"", col | 0x10 | nib, col | 0x20 | nib, col | 0x30 | nib)

    # ---- 16-bit operations
    for m, (pre, op, has_imm) in W16.items():
        p = bytes([pre]) if pre is not None else b""
        if has_imm:
            add(m + " #imm16", m + " #{0}", [IMM16()], (lambda pp, o: lambda pc, v: pp + bytes([o]) + w(v[0]))(p, op))
        memory(m, p, op | 0x10, op | 0x20, op | 0x30)
    for m, op in LEA.items():
        indexed(m, [op])

    # ---- condition code register, CWAI
    for m, op in (("ORCC", 0x1A), ("ANDCC", 0x1C), ("CWAI", 0x3C)):
        add(m + " #imm8", m + " #{0}", [IMM8()], (lambda o: lambda pc, v: bytes([o, lo(v[0])]))(op))

    # ---- register transfer: both registers of the same size
    for m, op in (("EXG", 0x1E), ("TFR", 0x1F)):
        for tag, regs in (("r16", R16), ("r8", R8)):
            names, codes = list(regs), list(regs.values())
            add("%s %s,%s" % (m, tag, tag), m + " {0},{1}", [Enum(names), Enum(names)],
                (lambda o, c: lambda pc, v: bytes([o, c[v[0]] << 4 | c[v[1]]]))(op, codes))

    # ---- push / pull: every subset of the eight registers, in data-sheet order, in reverse order, and with D for A,B
    for m, op, other in (("PSHS", 0x34, "U"), ("PULS", 0x35, "U"), ("PSHU", 0x36, "S"), ("PULU", 0x37, "S")):
        bits = [other if b is None else b for b in STACKBITS]
        names, masks = [], []
        for mask in range(1, 256):
            regs = [bits[i] for i in range(8) if mask >> i & 1]
            variants = [",".join(regs)]
            if len(regs) > 1:
                variants.append(",".join(reversed(regs)))
            if mask & 0x06 == 0x06:
                variants.append(",".join(["D"] + [r for r in regs if r not in ("A", "B")]))
            for t in variants:
                names.append(t)
                masks.append(mask)
        add(m + " list", m + " {0}", [Enum(names)], (lambda o, ms: lambda pc, v: bytes([o, ms[v[0]]]))(op, masks))

    # ---- branches
    for m, op in BRANCH.items():
        add(m + " rel8", m + " {0}", [Rel(-128, 127, 2)], (lambda o: lambda pc, v: bytes([o, lo(v[0])]))(op),
            rel=(0, lambda b: sx(b[1], 8)))
        if m != "BRA":
            add("L" + m + " rel16", "L" + m + " {0}", [Wrap16(4)],
                (lambda o: lambda pc, v: bytes([0x10, o]) + w(v[0]))(op),
                rel=(0, lambda b: sx(b[2] << 8 | b[3], 16)))
    add("BSR rel8", "BSR {0}", [Rel(-128, 127, 2)], lambda pc, v: bytes([0x8D, lo(v[0])]), rel=(0, lambda b: sx(b[1], 8)))
    add("LBRA rel16", "LBRA {0}", [Wrap16(3)], lambda pc, v: bytes([0x16]) + w(v[0]),
        rel=(0, lambda b: sx(b[1] << 8 | b[2], 16)))
    add("LBSR rel16", "LBSR {0}", [Wrap16(3)], lambda pc, v: bytes([0x17]) + w(v[0]),
        rel=(0, lambda b: sx(b[1] << 8 | b[2], 16)))
    return F


FORMS = build()

ISAS = [
    # t_full09 is assembled for the 6309, a superset with identical encodings of the 6809 instructions; it runs with
    # ASSUME DPR:8, so lines addressing the word at address 4 without prefix are extended there (not compared)
    Isa("6809", "6809", FORMS, "mot", pcsym="*", slot=8, base=0x1000, offsets=[0, 1, 3],
        golden=[("t_full09", {"6309": True})],
        golden_ignore=[m + " addressfour" for m in ("lda", "neg", "com", "lsr", "ror", "asr", "asl", "lsl", "rol", "dec",
                                                     "inc", "tst", "jmp", "clr", "lds", "sts")]),
]
