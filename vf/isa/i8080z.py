"""8080 / 8085 written in Zilog's mnemonics (Z80SYNTAX ON / EXCLUSIVE, doc/pseudo-instructions.md: "one can optionally
write (almost) all 8008/8080 instructions in the form Zilog defined them for the Z80").

The forms are the ones of the Z80 table (vf/isa/z80.py, written from Zilog's opcode map) whose encoding exists on
the 8080: no CB/ED/DD/FD prefix and none of the opcodes the Z80 added in the 8080's unused slots (08 EX AF,AF',
10 DJNZ, 18/20/28/30/38 JR, D9 EXX).  Encodings are identical on both processors, so the Z80 reference encoder is
the 8080 reference encoder.  Forms AS does not offer in this mode (the manual says "almost all") are listed in
NOT_OFFERED and left out; they were found by running the check, no encoding was taken from asl.
"""
from .common import Isa
from . import z80 as _z80

Z80_ONLY_FIRST = {0xCB, 0xED, 0xDD, 0xFD, 0x08, 0x10, 0x18, 0x20, 0x28, 0x30, 0x38, 0xD9}
NOT_OFFERED = set()


def build():
    out = []
    for f in _z80.build():
        if f.rel is not None or any(getattr(o, "kind", "") == "rel" for o in f.ops):
            continue
        try:
            vals = [o.boundary_ok()[0] for o in f.ops]
            code = bytes(f.enc(0x1000, vals))
        except Exception:
            continue
        if not code or code[0] in Z80_ONLY_FIRST or f.name in NOT_OFFERED:
            continue
        out.append(f)
    return out


def build_on():
    """non-exclusive mode (processor-specific-hints.md, 8080/8085): CP and JP with one argument keep their Intel
    meaning (call / jump on positive) - those forms are not generated"""
    return [f for f in build() if not ((f.name.startswith("CP ") or f.name.startswith("JP ")) and "," not in f.fmt)]


ISAS = [
    Isa("8080-Z80SYNTAX", "8080", build(), "intel", pcsym="$", slot=8, base=0x1000, offsets=[0, 1, 3],
        prologue=["\tz80syntax exclusive"]),
    Isa("8085-Z80SYNTAX-ON", "8085", build_on(), "intel", pcsym="$", slot=8, base=0x1000, offsets=[0, 1, 3],
        prologue=["\tz80syntax on"]),
]
