"""TI MSP430 (CPU of the x1xx family) reference encoder - MSP430x1xx Family User's Guide (SLAU049),
chapter "RISC 16-bit CPU": formats I (double operand), II (single operand), jumps, the seven
addressing modes, the constant generators R2/R3 and the emulated instructions of table 3-?? as the
assembler's manual (doc/processor-specific-hints.md, MSP430) says they are built in.
Written from TI's definition, not from codemsp.c.

Not generated (assembler-specific or ambiguous): R3 as an explicit register operand (asl rejects
it), R2/R3/PC as base of indexed/indirect modes (they select other modes), a zero index in a
*source* operand (asl shortens 0(Rn) to @Rn), byte immediates of 255, immediates of PUSH/CALL/BR
that a constant generator could produce (device errata make assemblers differ), `@Rn` as
destination (assembler convenience for 0(Rn)).
For byte operations the high byte of an immediate extension word is not compared.
"""
from .common import Form, Int, Enum, Rel, Isa, sx, words

REGN = ["PC", "SP", "SR"] + ["R%d" % i for i in range(4, 16)]
REGV = [0, 1, 2] + list(range(4, 16))
IDXN = ["SP"] + ["R%d" % i for i in range(4, 16)]
IDXV = [1] + list(range(4, 16))

OPS1 = {"MOV": 4, "ADD": 5, "ADDC": 6, "SUBC": 7, "SUB": 8, "CMP": 9, "DADD": 10, "BIT": 11, "BIC": 12,
        "BIS": 13, "XOR": 14, "AND": 15}
OPS2 = {"RRC": (0, True), "SWPB": (1, False), "RRA": (2, True), "SXT": (3, False), "PUSH": (4, True),
        "CALL": (5, False)}
JUMPS = {"JNE": 0, "JNZ": 0, "JEQ": 1, "JZ": 1, "JNC": 2, "JLO": 2, "JC": 3, "JHS": 3, "JN": 4, "JGE": 5,
         "JL": 6, "JMP": 7}
CG = {0: (3, 0), 1: (3, 1), 2: (3, 2), -1: (3, 3), 4: (2, 2), 8: (2, 3)}
CGVALS = [0, 1, 2, 4, 8, -1]
NEAR_CG = [3, 5, 7, 9, -2, 16]

SRC_MODES = ["Rn", "x(Rn)", "sym", "&abs", "@Rn", "@Rn+", "#N"]
DST_MODES = ["Rn", "x(Rn)", "sym", "&abs"]


class Sym(Rel):
    """symbolic (PC-relative) mode: the case value is the distance target - pc modulo 64K; every
    distance is encodable (16-bit address arithmetic wraps), so nothing is rejectable"""

    def __init__(self):
        Rel.__init__(self, -32768, 32767, 0, 1, band=8)

    def target(self, v, pc):
        return (pc + v) & 0xffff

    def from_target(self, t, pc):
        return sx(t - pc, 16)

    def classify(self, v, pc=0, vals=None):
        return "ok" if self.lo <= v <= self.hi else "excl"

    def boundary_ok(self):
        return [0, 1, 2, 3, 4, 5, 6, 7, 8, -1, -2, -3, self.lo, self.lo + 1, self.lo + 2, self.lo + 3, self.lo + 4,
                self.lo + 5, self.lo + 6, self.hi, self.hi - 1, self.hi - 2, 0x1000, -0x1000]

    def boundary_rej(self):
        return []

    def opclass(self, v):
        if 0 <= v <= 8:
            return "sym@self+%d" % v
        if v - self.lo <= 8:
            return "sym@wrap+%d" % (v - self.lo)
        if self.hi - v <= 2:
            return "sym@hi-%d" % (self.hi - v)
        return None

    def draw_ok(self, d):
        k = d.int(0, 9)
        if k < 4:
            return d.choice(self.boundary_ok())
        return d.int(self.lo, self.hi)

    def draw_rej(self, d):
        return None


def mode_ops(mode, byte, is_src, nocg=False):
    """-> (operand list, text template with %d placeholders to be numbered)"""
    if mode == "Rn":
        return [Enum(REGN)], "{}"
    if mode == "x(Rn)":
        return [Int(-32768, 65535, holes=[0] if is_src else []), Enum(IDXN)], "{}({})"
    if mode == "sym":
        return [Sym()], "{}"
    if mode == "&abs":
        return [Int(0, 65535, rej_lo=False)], "&{}"
    if mode == "@Rn":
        return [Enum(IDXN)], "@{}"
    if mode == "@Rn+":
        return [Enum(IDXN)], "@{}+"
    if mode == "#N":
        holes = set()
        if nocg:
            holes |= set(CGVALS) | {65535, 255}
        if byte:
            return [Int(-128, 255, holes=holes | {255}, extra=[v for v in CGVALS + NEAR_CG if v not in holes])], "#{}"
        return [Int(-32768, 65535, holes=holes, extra=[v for v in CGVALS + NEAR_CG if v not in holes])], "#{}"
    raise ValueError(mode)


def enc_operand(mode, vals, byte, extaddr, pc):
    """-> (As/Ad bits, register field, extension word or None)"""
    if mode == "Rn":
        return 0, REGV[vals[0]], None
    if mode == "x(Rn)":
        return 1, IDXV[vals[1]], vals[0] & 0xffff
    if mode == "sym":
        return 1, 0, (((pc + vals[0]) & 0xffff) - extaddr) & 0xffff
    if mode == "&abs":
        return 1, 2, vals[0] & 0xffff
    if mode == "@Rn":
        return 2, IDXV[vals[0]], None
    if mode == "@Rn+":
        return 3, IDXV[vals[0]], None
    if mode == "#N":
        n = vals[0]
        if n == 65535 and not byte:
            n = -1
        if n in CG:
            reg, a = CG[n]
            return a, reg, None
        return 3, 0, n & 0xffff
    if mode == "#raw":          # immediate without constant generator (never with CG values)
        return 3, 0, vals[0] & 0xffff
    raise ValueError(mode)


def enc_two(op, byte, smode, svals, dmode, dvals, pc):
    a_s, sreg, sext = enc_operand(smode, svals, byte, pc + 2, pc)
    dextaddr = pc + (4 if sext is not None else 2)
    a_d, dreg, dext = enc_operand(dmode, dvals, byte, dextaddr, pc)
    w = [op << 12 | sreg << 8 | a_d << 7 | (1 if byte else 0) << 6 | a_s << 4 | dreg]
    if sext is not None:
        w.append(sext)
    if dext is not None:
        w.append(dext)
    return words(*w)


def enc_one(op, byte, mode, vals, pc):
    a, reg, ext = enc_operand(mode, vals, byte, pc + 2, pc)
    w = [0x1000 | op << 7 | (1 if byte else 0) << 6 | a << 4 | reg]
    if ext is not None:
        w.append(ext)
    return words(*w)


def _w(b, off):
    return b[off] | b[off + 1] << 8


def dec_src_sym(b):
    """distance target - pc encoded by the first extension word (symbolic source / single operand)"""
    return sx(2 + _w(b, 2), 16)


def dec_dst_sym(b):
    """distance target - pc encoded by the destination's extension word; its position follows from the
    source's As/register fields of the instruction word (constant generators have no extension word)"""
    w = _w(b, 0)
    a_s, sreg = (w >> 4) & 3, (w >> 8) & 15
    off = 4 if (a_s == 1 and sreg != 3) or (a_s == 3 and sreg == 0) else 2
    return sx(off + _w(b, off), 16)


def sym_rel(sm, nsrc, dm):
    r = []
    if sm == "sym":
        r.append((0, dec_src_sym))
    if dm == "sym":
        r.append((nsrc, dec_dst_sym))
    return r or None


def number(tmpl, start):
    out, k = "", start
    for part in tmpl.split("{}"):
        out += part + "{%d}" % k
        k += 1
    return out[:-len("{%d}" % (k - 1))], k - 1


def build():
    F = []
    for m, op in OPS1.items():
        for byte in (False, True):
            for sm in SRC_MODES:
                sops, stxt = mode_ops(sm, byte, True)
                for dm in DST_MODES:
                    dops, dtxt = mode_ops(dm, byte, False)
                    st, n = number(stxt, 0)
                    dt, _ = number(dtxt, n)
                    mn = m + (".B" if byte else "")
                    dc = None
                    if byte and sm == "#N":
                        dc = bytes([0, 0, 0, 0xff])
                    F.append(Form("%s %s,%s" % (mn, sm, dm), "%s %s,%s" % (mn, st, dt), sops + dops,
                                  (lambda op, byte, sm, dm, ns: lambda pc, v: enc_two(op, byte, sm, v[:ns], dm, v[ns:], pc))
                                  (op, byte, sm, dm, len(sops)), dontcare=dc, note=None if byte else "W",
                                  rel=sym_rel(sm, len(sops), dm)))
    for m, (op, hasb) in OPS2.items():
        for byte in ((False, True) if hasb else (False,)):
            for sm in SRC_MODES:
                if sm == "#N" and m not in ("PUSH", "CALL"):
                    continue
                sops, stxt = mode_ops(sm, byte, True, nocg=True)
                st, _ = number(stxt, 0)
                mn = m + (".B" if byte else "")
                dc = bytes([0, 0, 0, 0xff]) if byte and sm == "#N" else None
                F.append(Form("%s %s" % (mn, sm), "%s %s" % (mn, st), sops,
                              (lambda op, byte, sm: lambda pc, v: enc_one(op, byte, "#raw" if sm == "#N" else sm, v, pc))
                              (op, byte, sm), dontcare=dc, note="W" if hasb and not byte else None,
                              rel=sym_rel(sm, 0, None)))
    F.append(Form("RETI", "RETI", [], lambda pc, v: words(0x1300)))
    for m, c in JUMPS.items():
        F.append(Form(m + " label", m + " {0}", [Rel(-512, 511, 2, scale=2)],
                      (lambda c: lambda pc, v: words(0x2000 | c << 10 | v[0] & 0x3ff))(c),
                      rel=(0, lambda b: sx(b[0] | b[1] << 8, 10))))
    # ---- emulated instructions (SLAU049 table of emulated instructions)
    EMU1 = {"ADC": ("ADDC", 0), "DADC": ("DADD", 0), "DEC": ("SUB", 1), "DECD": ("SUB", 2), "INC": ("ADD", 1),
            "INCD": ("ADD", 2), "SBC": ("SUBC", 0), "INV": ("XOR", -1), "CLR": ("MOV", 0), "TST": ("CMP", 0)}
    for m, (real, imm) in EMU1.items():
        for byte in (False, True):
            for dm in DST_MODES:
                dops, dtxt = mode_ops(dm, byte, False)
                dt, _ = number(dtxt, 0)
                mn = m + (".B" if byte else "")
                F.append(Form("%s %s" % (mn, dm), "%s %s" % (mn, dt), dops,
                              (lambda op, byte, imm, dm: lambda pc, v: enc_two(op, byte, "#N", [imm], dm, v, pc))
                              (OPS1[real], byte, imm, dm), note=None if byte else "W", rel=sym_rel(None, 0, dm)))
    for m, real in (("RLA", "ADD"), ("RLC", "ADDC")):
        for byte in (False, True):
            for dm in DST_MODES:
                dops, dtxt = mode_ops(dm, byte, dm == "x(Rn)")      # zero index excluded (source side)
                dt, _ = number(dtxt, 0)
                mn = m + (".B" if byte else "")
                F.append(Form("%s %s" % (mn, dm), "%s %s" % (mn, dt), dops,
                              (lambda op, byte, dm: lambda pc, v: enc_two(op, byte, dm, v, dm, v, pc))
                              (OPS1[real], byte, dm), note=None if byte else "W",
                              rel=[(0, dec_src_sym), (0, dec_dst_sym)] if dm == "sym" else None))
        # index zero: the source side is shortened to @Rn, the destination keeps its index word
        for byte in (False, True):
            mn = m + (".B" if byte else "")
            F.append(Form("%s 0(Rn)" % mn, "%s 0({0})" % mn, [Enum(IDXN)],
                          (lambda op, byte: lambda pc, v: enc_two(op, byte, "@Rn", v, "x(Rn)", [0, v[0]], pc))
                          (OPS1[real], byte)))
        # documented special case: rlc @r6+  ==  addc @r6+,-2(r6)
        F.append(Form("%s @Rn+" % m, "%s @{0}+" % m, [Enum(IDXN)],
                      (lambda op: lambda pc, v: enc_two(op, False, "@Rn+", v, "x(Rn)", [-2, v[0]], pc))(OPS1[real])))
    for byte in (False, True):
        for dm in DST_MODES:
            dops, dtxt = mode_ops(dm, byte, False)
            dt, _ = number(dtxt, 0)
            mn = "POP" + (".B" if byte else "")
            F.append(Form("%s %s" % (mn, dm), "%s %s" % (mn, dt), dops,
                          (lambda byte, dm: lambda pc, v: enc_two(4, byte, "@Rn+", [0], dm, v, pc))(byte, dm),
                          note=None if byte else "W", rel=sym_rel(None, 0, dm)))
    for sm in SRC_MODES:
        sops, stxt = mode_ops(sm, False, True, nocg=True)
        st, _ = number(stxt, 0)
        F.append(Form("BR " + sm, "BR " + st, sops,
                      (lambda sm: lambda pc, v: enc_two(4, False, "#raw" if sm == "#N" else sm, v, "Rn", [0], pc))(sm),
                      rel=sym_rel(sm, 0, None)))
    for m, (real, imm, reg) in {"CLRC": ("BIC", 1, 2), "CLRN": ("BIC", 4, 2), "CLRZ": ("BIC", 2, 2),
                                "DINT": ("BIC", 8, 2), "EINT": ("BIS", 8, 2), "SETC": ("BIS", 1, 2),
                                "SETN": ("BIS", 4, 2), "SETZ": ("BIS", 2, 2)}.items():
        F.append(Form(m, m, [], (lambda op, imm, reg: lambda pc, v: enc_two(op, False, "#N", [imm], "Rn", [reg], pc))
                      (OPS1[real], imm, reg)))
    F.append(Form("NOP", "NOP", [], lambda pc, v: words(0x4303)))            # MOV #0,R3
    F.append(Form("RET", "RET", [], lambda pc, v: words(0x4130)))            # MOV @SP+,PC
    return F


ISAS = [Isa("MSP430", "MSP430", build(), "intel", pcsym="$", gran=1, slot=8, base=0x1000, maxaddr=0xffff, maxitems=150, offsets=[0, 2],
            golden=[("t_msp", {"msp430": True})])]
