"""NEC uCOM-87AD (uPD7810/7811, uPD78C10/C11/C14) reference encoder (uPD7810/78C10 User's Manual,
chapters "Operand description", "Instruction code description" and "Instruction set list"; the
87AD series data book lists the same codes).  Written from NEC's definition, not from code78c10.c.

NEC notation recap (codes as NEC lists them)
  r    V A B C D E H L  (R2R1R0 = 0..7)          r1   EAH EAL B C D E H L (T2T1T0 = 0..7)
  r2   A B C (R1R0 = 1..3)
  sr   PA 00 PB 01 PC 02 PD 03 PF 05 MKH 06 MKL 07 ANM 08 SMH 09 SML 0A EOM 0B ETMM 0C TMM 0D MM 10
       MCC 11 MA 12 MB 13 MC 14 MF 17 TXB 18 TM0 1A TM1 1B ZCM 28 (ZCM: CMOS parts only)
  sr1  PA PB PC PD PF MKH MKL ANM SMH EOM TMM (codes as above) RXB 19 CR0..CR3 20..23
  sr2  PA PB PC PD PF MKH MKL ANM SMH EOM TMM (S3 in bit 7, S2S1S0 in bits 2..0 of the second byte)
  sr3  ETM0 ETM1 (U0)      sr4  ECNT ECPT (V0)
  rp   SP B D H (P1P0)     rp1  V B D H EA (Q2Q1Q0)    rp2  SP B D H EA (P2P1P0)    rp3  B D H (1..3)
  rpa  B 1 D 2 H 3 D+ 4 H+ 5 D- 6 H- 7;  rpa1 B D H;  rpa2 = rpa + D+byte 0B, H+A 0C, H+B 0D, H+EA 0E,
       H+byte 0F (A3 goes to bit 7 of the opcode byte);  rpa3 D 2 H 3 D++ 4 H++ 5 D+byte 0B H+A 0C H+B 0D
       H+EA 0E H+byte 0F
  wa   low byte of a working-area address (high byte = V register)
  f    CY 2 HC 3 Z 4         irf  NMI 0 FT0 1 FT1 2 F1 3 F2 4 FE0 5 FE1 6 FEIN 7 FAD 8 FSR 9 FST 0A ER 0B
                                  OV 0C AN4 10 AN5 11 AN6 12 AN7 13 SB 14
  ALU operation code oooo (bits 6..3 of the byte that follows 60H / 74H / 70H / 64H):
       ANA 1 XRA 2 ORA 3 ADDNC 4 GTA 5 SUBNB 6 LTA 7 ADD 8 ONA 9 ADC A OFFA B SUB C NEA D SBB E EQA F
       60H: bit 7 = 1 "A,r", 0 "r,A";  74H 0oooo rrr = xxI r,byte;  74H 1oooo000 = xxxW wa;
       74H 1oooo1PP = 16-bit EA,rp3;  70H 1oooo AAA = xxxX rpa;  64H S3 oooo SSS = xxI sr2,byte;
       one-byte accumulator immediates: (oooo>>1)<<4 | 6 | (oooo&1); xxIW wa,byte: (oooo>>1)<<4 | 5 (odd oooo)

AS specifics used (doc/processor-specific-hints.md "uPD78(C)1x", doc/pseudo-instructions.md ASSUME):
register pairs are written with one letter, `ASSUME V:0` is given in the prologue so that working-area
operands are 0..0FFH; the program counter symbol is $.

Not generated (and why)
  - xxI A,byte through the three-byte "r,byte" line (NEC lists the two-byte accumulator line for A; the
    r line is generated for V B C D E H L only)
  - ONA r,A / OFFA r,A (not in NEC's list), MOV r1,A / MOV A,r1 with A or V (not r1); the pair A,A of the
    two-operand ALU group (matches both the "A,r" and the "r,A" line)
  - working-area operands outside the page selected by ASSUME (AS only warns)
  - D+byte / H+byte with a negative byte (NEC: byte = 0..255; AS accepts -128..-1 as two's complement)
  - the pseudo instruction J (AS chooses between JR and JRE), alias spellings of the rpa operands
  - negative addresses
"""
from .common import Form, Int, Enum, Rel, Isa, sx

R = ["V", "A", "B", "C", "D", "E", "H", "L"]
R_NOA = [n for n in R if n != "A"]
R1 = ["EAH", "EAL", "B", "C", "D", "E", "H", "L"]
R2 = ["A", "B", "C"]
SR = {"PA": 0x00, "PB": 0x01, "PC": 0x02, "PD": 0x03, "PF": 0x05, "MKH": 0x06, "MKL": 0x07, "ANM": 0x08,
      "SMH": 0x09, "SML": 0x0A, "EOM": 0x0B, "ETMM": 0x0C, "TMM": 0x0D, "MM": 0x10, "MCC": 0x11, "MA": 0x12,
      "MB": 0x13, "MC": 0x14, "MF": 0x17, "TXB": 0x18, "TM0": 0x1A, "TM1": 0x1B, "ZCM": 0x28}
SR1 = {"PA": 0x00, "PB": 0x01, "PC": 0x02, "PD": 0x03, "PF": 0x05, "MKH": 0x06, "MKL": 0x07, "ANM": 0x08,
       "SMH": 0x09, "EOM": 0x0B, "TMM": 0x0D, "RXB": 0x19, "CR0": 0x20, "CR1": 0x21, "CR2": 0x22, "CR3": 0x23}
SR2 = {"PA": 0x0, "PB": 0x1, "PC": 0x2, "PD": 0x3, "PF": 0x5, "MKH": 0x6, "MKL": 0x7, "ANM": 0x8, "SMH": 0x9,
       "EOM": 0xB, "TMM": 0xD}
RP = ["SP", "B", "D", "H"]
RP1 = ["V", "B", "D", "H", "EA"]
RP2 = ["SP", "B", "D", "H", "EA"]
RP3 = ["B", "D", "H"]                      # codes 1..3
RPA = {"B": 1, "D": 2, "H": 3, "D+": 4, "H+": 5, "D-": 6, "H-": 7}
RPA2X = {"H+A": 0xC, "H+B": 0xD, "H+EA": 0xE}      # rpa2 / rpa3 members without byte
RPA3 = {"D": 2, "H": 3, "D++": 4, "H++": 5}
FLAGS = {"CY": 2, "HC": 3, "Z": 4}
IRF = {"NMI": 0x00, "FT0": 0x01, "FT1": 0x02, "F1": 0x03, "F2": 0x04, "FE0": 0x05, "FE1": 0x06, "FEIN": 0x07,
       "FAD": 0x08, "FSR": 0x09, "FST": 0x0A, "ER": 0x0B, "OV": 0x0C, "AN4": 0x10, "AN5": 0x11, "AN6": 0x12,
       "AN7": 0x13, "SB": 0x14}
ALU = {"ANA": 1, "XRA": 2, "ORA": 3, "ADDNC": 4, "GTA": 5, "SUBNB": 6, "LTA": 7, "ADD": 8, "ONA": 9, "ADC": 0xA,
       "OFFA": 0xB, "SUB": 0xC, "NEA": 0xD, "SBB": 0xE, "EQA": 0xF}
# mnemonic stems of the immediate / 16-bit variants
IMM = {"ANI": 1, "XRI": 2, "ORI": 3, "ADINC": 4, "GTI": 5, "SUINB": 6, "LTI": 7, "ADI": 8, "ONI": 9, "ACI": 0xA,
       "OFFI": 0xB, "SUI": 0xC, "NEI": 0xD, "SBI": 0xE, "EQI": 0xF}
D16 = {"DAN": 1, "DXR": 2, "DOR": 3, "DADDNC": 4, "DGT": 5, "DSUBNB": 6, "DLT": 7, "DADD": 8, "DON": 9,
       "DADC": 0xA, "DOFF": 0xB, "DSUB": 0xC, "DNE": 0xD, "DSBB": 0xE, "DEQ": 0xF}


def byte():
    return Int(-128, 255)


def word():
    return Int(-32768, 65535)


def addr16():
    return Int(0, 0xFFFF, rej_lo=False)


def wa():
    # outside the page given by ASSUME V: AS only warns - not generated
    return Int(0, 0xFF, rej_lo=False, rej_hi=False)


def offs():
    # NEC: byte = 0..255 is added to DE / HL; nothing beyond 255 fits
    return Int(0, 255, rej_lo=False)


def lo(v):
    return v & 0xff


def hi(v):
    return (v >> 8) & 0xff


def build(cmos):
    F = []

    def add(name, fmt, ops, enc, rel=None):
        F.append(Form(name, fmt, ops, enc, rel))

    def fixed(text, *bs):
        b = bytes(bs)
        add(text, text, [], lambda pc, v: b)

    def enum(d):
        """Enum over the keys of a code dictionary / list + function value index -> code"""
        names = list(d)
        codes = [d[n] for n in names] if isinstance(d, dict) else list(range(len(names)))
        return Enum(names), (lambda i: codes[i])

    sr = dict(SR)
    if not cmos:
        del sr["ZCM"]

    # ------------------------------------------------------------ no operand
    for m, bs in (("NOP", [0x00]), ("EI", [0xAA]), ("DI", [0xBA]), ("HLT", [0x48, 0x3B]), ("EXX", [0x11]),
                  ("EXA", [0x10]), ("EXH", [0x50]), ("BLOCK", [0x31]), ("TABLE", [0x48, 0xA8]), ("DAA", [0x61]),
                  ("STC", [0x48, 0x2B]), ("CLC", [0x48, 0x2A]), ("NEGA", [0x48, 0x3A]), ("RLD", [0x48, 0x38]),
                  ("RRD", [0x48, 0x39]), ("JB", [0x21]), ("JEA", [0x48, 0x28]), ("CALB", [0x48, 0x29]),
                  ("SOFTI", [0x72]), ("RET", [0xB8]), ("RETS", [0xB9]), ("RETI", [0x62])):
        fixed(m, *bs)
    if cmos:
        fixed("STOP", 0x48, 0xBB)

    # ------------------------------------------------------------ 8-bit data transfer
    for i, n in enumerate(R1):
        fixed("MOV %s,A" % n, 0x18 | i)
        fixed("MOV A,%s" % n, 0x08 | i)
    e, c = enum(sr)
    add("MOV sr,A", "MOV {0},A", [e], (lambda c: lambda pc, v: bytes([0x4D, 0xC0 | c(v[0])]))(c))
    e, c = enum(SR1)
    add("MOV A,sr1", "MOV A,{0}", [e], (lambda c: lambda pc, v: bytes([0x4C, 0xC0 | c(v[0])]))(c))
    add("MOV r,word", "MOV {0},{1}", [Enum(R), addr16()], lambda pc, v: bytes([0x70, 0x68 | v[0], lo(v[1]), hi(v[1])]))
    add("MOV word,r", "MOV {0},{1}", [addr16(), Enum(R)], lambda pc, v: bytes([0x70, 0x78 | v[1], lo(v[0]), hi(v[0])]))
    add("MVI r,byte", "MVI {0},{1}", [Enum(R), byte()], lambda pc, v: bytes([0x68 | v[0], lo(v[1])]))
    e, c = enum(SR2)
    add("MVI sr2,byte", "MVI {0},{1}", [e, byte()],
        (lambda c: lambda pc, v: bytes([0x64, (c(v[0]) & 8) << 4 | c(v[0]) & 7, lo(v[1])]))(c))
    add("MVIW wa,byte", "MVIW {0},{1}", [wa(), byte()], lambda pc, v: bytes([0x71, v[0], lo(v[1])]))
    for n in ("B", "D", "H"):
        add("MVIX %s,byte" % n, "MVIX %s,{0}" % n, [byte()], (lambda o: lambda pc, v: bytes([o, lo(v[0])]))(0x48 | RPA[n]))
    add("STAW wa", "STAW {0}", [wa()], lambda pc, v: bytes([0x63, v[0]]))
    add("LDAW wa", "LDAW {0}", [wa()], lambda pc, v: bytes([0x01, v[0]]))
    for m, base in (("STAX", 0x38), ("LDAX", 0x28)):
        for n, code in list(RPA.items()) + list(RPA2X.items()):
            fixed("%s %s" % (m, n), (code & 8) << 4 | base | code & 7)
        for n, code in (("D", 0xB), ("H", 0xF)):
            add("%s %s+byte" % (m, n), "%s %s+{0}" % (m, n), [offs()],
                (lambda o: lambda pc, v: bytes([o, v[0]]))(0x80 | base | code & 7))

    # ------------------------------------------------------------ 16-bit data transfer
    for i, n in enumerate(RP3, 1):
        fixed("DMOV %s,EA" % n, 0xB4 | i)
        fixed("DMOV EA,%s" % n, 0xA4 | i)
    fixed("DMOV ETM0,EA", 0x48, 0xD2)
    fixed("DMOV ETM1,EA", 0x48, 0xD3)
    fixed("DMOV EA,ECNT", 0x48, 0xC0)
    fixed("DMOV EA,ECPT", 0x48, 0xC1)
    for k, n in enumerate(("SP", "BC", "DE", "HL")):
        st = "S" + n + "D" if n != "HL" else "SHLD"
        ld = "L" + n + "D" if n != "HL" else "LHLD"
        add(st + " word", st + " {0}", [addr16()], (lambda o: lambda pc, v: bytes([0x70, o, lo(v[0]), hi(v[0])]))(k << 4 | 0x0E))
        add(ld + " word", ld + " {0}", [addr16()], (lambda o: lambda pc, v: bytes([0x70, o, lo(v[0]), hi(v[0])]))(k << 4 | 0x0F))
    for m, base in (("STEAX", 0x90), ("LDEAX", 0x80)):
        for n, code in list(RPA3.items()) + list(RPA2X.items()):
            fixed("%s %s" % (m, n), 0x48, base | code)
        for n, code in (("D", 0xB), ("H", 0xF)):
            add("%s %s+byte" % (m, n), "%s %s+{0}" % (m, n), [offs()],
                (lambda o: lambda pc, v: bytes([0x48, o, v[0]]))(base | code))
    for i, n in enumerate(RP1):
        fixed("PUSH " + n, 0xB0 | i)
        fixed("POP " + n, 0xA0 | i)
    for i, n in enumerate(RP2):
        add("LXI %s,word" % n, "LXI %s,{0}" % n, [word()], (lambda o: lambda pc, v: bytes([o, lo(v[0]), hi(v[0])]))(i << 4 | 4))

    # ------------------------------------------------------------ 8-bit arithmetic / logic / compare-skip
    for m, o in ALU.items():
        # the pair A,A would match both lines of NEC's list: generated for ONA / OFFA only (one line)
        rs = R if m in ("ONA", "OFFA") else R_NOA
        add(m + " A,r", m + " A,{0}", [Enum(rs)],
            (lambda o, rs: lambda pc, v: bytes([0x60, 0x80 | o << 3 | R.index(rs[v[0]])]))(o, rs))
        if m not in ("ONA", "OFFA"):
            add(m + " r,A", m + " {0},A", [Enum(R_NOA)],
                (lambda o: lambda pc, v: bytes([0x60, o << 3 | R.index(R_NOA[v[0]])]))(o))
        add(m + "W wa", m + "W {0}", [wa()], (lambda o: lambda pc, v: bytes([0x74, 0x80 | o << 3, v[0]]))(o))
        for n, code in RPA.items():
            fixed("%sX %s" % (m, n), 0x70, 0x80 | o << 3 | code)
    for m, o in IMM.items():
        add(m + " A,byte", m + " A,{0}", [byte()], (lambda op: lambda pc, v: bytes([op, lo(v[0])]))((o >> 1) << 4 | 6 | o & 1))
        add(m + " r,byte", m + " {0},{1}", [Enum(R_NOA), byte()],
            (lambda o: lambda pc, v: bytes([0x74, o << 3 | R.index(R_NOA[v[0]]), lo(v[1])]))(o))
        e, c = enum(SR2)
        add(m + " sr2,byte", m + " {0},{1}", [e, byte()],
            (lambda o, c: lambda pc, v: bytes([0x64, (c(v[0]) & 8) << 4 | o << 3 | c(v[0]) & 7, lo(v[1])]))(o, c))
        if o & 1:
            add(m + "W wa,byte", m + "W {0},{1}", [wa(), byte()],
                (lambda op: lambda pc, v: bytes([op, v[0], lo(v[1])]))((o >> 1) << 4 | 5))

    # ------------------------------------------------------------ 16-bit arithmetic, multiply / divide
    for i, n in enumerate(R2, 1):
        fixed("EADD EA," + n, 0x70, 0x40 | i)
        fixed("ESUB EA," + n, 0x70, 0x60 | i)
        fixed("MUL " + n, 0x48, 0x2C | i)
        fixed("DIV " + n, 0x48, 0x3C | i)
        fixed("INR " + n, 0x40 | i)
        fixed("DCR " + n, 0x50 | i)
        fixed("RLL " + n, 0x48, 0x34 | i)
        fixed("RLR " + n, 0x48, 0x30 | i)
        fixed("SLL " + n, 0x48, 0x24 | i)
        fixed("SLR " + n, 0x48, 0x20 | i)
        fixed("SLLC " + n, 0x48, 0x04 | i)
        fixed("SLRC " + n, 0x48, 0x00 | i)
    for m, o in D16.items():
        for i, n in enumerate(RP3, 1):
            fixed("%s EA,%s" % (m, n), 0x74, 0x80 | o << 3 | 4 | i)
    add("INRW wa", "INRW {0}", [wa()], lambda pc, v: bytes([0x20, v[0]]))
    add("DCRW wa", "DCRW {0}", [wa()], lambda pc, v: bytes([0x30, v[0]]))
    for i, n in enumerate(RP):
        fixed("INX " + n, i << 4 | 2)
        fixed("DCX " + n, i << 4 | 3)
    fixed("INX EA", 0xA8)
    fixed("DCX EA", 0xA9)
    fixed("DRLL EA", 0x48, 0xB4)
    fixed("DRLR EA", 0x48, 0xB0)
    fixed("DSLL EA", 0x48, 0xA4)
    fixed("DSLR EA", 0x48, 0xA0)

    # ------------------------------------------------------------ jump / call / skip
    add("JMP word", "JMP {0}", [addr16()], lambda pc, v: bytes([0x54, lo(v[0]), hi(v[0])]))
    add("CALL word", "CALL {0}", [addr16()], lambda pc, v: bytes([0x40, lo(v[0]), hi(v[0])]))
    # jdisp1: 6 bits from the address of the next instruction; jdisp: 9 bits (sign in bit 0 of the opcode)
    add("JR word", "JR {0}", [Rel(-32, 31, 1)], lambda pc, v: bytes([0xC0 | v[0] & 0x3F]), (0, lambda b: sx(b[0], 6)))
    add("JRE word", "JRE {0}", [Rel(-256, 255, 2)], lambda pc, v: bytes([0x4E | (v[0] >> 8) & 1, lo(v[0])]),
        (0, lambda b: sx((b[0] & 1) << 8 | b[1], 9)))
    # CALF: 0800H..0FFFH, the low 11 bits are encoded;  CALT: table address 128..190 (even), ta = (addr-128)/2
    add("CALF word", "CALF {0}", [Int(0x800, 0xFFF)], lambda pc, v: bytes([0x78 | (v[0] >> 8) & 7, lo(v[0])]))
    add("CALT word", "CALT {0}", [Int(128, 190, step=2)], lambda pc, v: bytes([0x80 | (v[0] - 128) >> 1]))
    add("BIT bit,wa", "BIT {0},{1}", [Int(0, 7), wa()], lambda pc, v: bytes([0x58 | v[0], v[1]]))
    for n, c in FLAGS.items():
        fixed("SK " + n, 0x48, 0x08 | c)
        fixed("SKN " + n, 0x48, 0x18 | c)
    for n, c in IRF.items():
        fixed("SKIT " + n, 0x48, 0x40 | c)
        fixed("SKNIT " + n, 0x48, 0x60 | c)
    return F


PRO = ["\tassume\tv:0"]
ISAS = [
    Isa("78C10", "78C10", build(True), "intel", pcsym="$", slot=8, base=0x1000, offsets=[0, 1, 3], prologue=PRO,
        golden=[("t_78c1x", {"78c10": True})]),
    Isa("7810", "7810", build(False), "intel", pcsym="$", slot=8, base=0x1000, offsets=[0, 1, 3], prologue=PRO),
]
