"""Toshiba TLCS-870 (TMP87C00 core: 87C00 / 87C20 / 87C40 / 87C70; NOT the TLCS-870/C or /X) reference encoder -
TLCS-870 series data book, "Instruction set" / operation code maps.  Written from Toshiba's definition, not from
code87c800.c or deco87c800.c.

Toshiba notation recap
  r / g    8-bit register    A 000, W 001, C 010, B 011, E 100, D 101, L 110, H 111
  rr / gg  16-bit register   WA 00, BC 01, DE 10, HL 11
  n 8-bit immediate, mn 16-bit immediate / address (low byte first), x / y direct address 00H..FFH,
  d signed 8-bit displacement, b bit number 0..7, (src).b / g.b bit operands
  op       ADDC 0, ADD 1, SUBB 2, SUB 3, AND 4, XOR 5, OR 6, CMP 7
  cc       Z/EQ 0, NZ/NE 1, CS/LT 2, CC/GE 3, LE 4, GT 5, T 6, F 7

First operation code map
  00 NOP  01 SWAP A  02 MUL W,A  03 DIV WA,C  04 RETI  05 RET  06 POP PSW  07 PUSH PSW  0A DAA A  0B DAS A
  0C CLR CF  0D SET CF  0E CPL CF  0F n LD RBS,n  10+rr INC rr  14+rr n m LD rr,mn  18+rr DEC rr
  1C SHLC A  1D SHRC A  1E ROLC A  1F RORC A
  20 x INC (x)  21 INC (HL)  22 x LD A,(x)  23 LD A,(HL)  24 x n m LDW (x),mn  25 n m LDW (HL),mn
  26 y x LD (x),(y)  28 x DEC (x)  29 DEC (HL)  2A x LD (x),A  2B LD (HL),A  2C x n LD (x),n  2D n LD (HL),n
  2E x CLR (x)  2F CLR (HL)  30+r n LD r,n  40+b x SET (x).b  48+b x CLR (x).b  50+r LD A,r  58+r LD r,A
  60+r INC r  68+r DEC r  70+op n  op A,n  78+op x  op A,(x)
  80+d JRS T,$+2+d   A0+d JRS F,$+2+d  (d: 5 bits, two's complement)     C0+n CALLV n
  D0+cc d JR cc,$+2+d  D8+b x LD CF,(x).b
  FA n m LD SP,mn  FB d JR $+2+d  FC n m CALL mn  FD n CALLP n (entry 0FF00H+n)  FE n m JP mn  FF SWI
Prefixes
  source memory operand       E0 x (x)   E1 (PC+A)   E2 (DE)   E3 (HL)   E4 d (HL+d)   E5 (HL+C)   E6 (HL+)  E7 (-HL)
  destination memory operand  F0 x (x)               F2 (DE)   F3 (HL)   F4 d (HL+d)               F6 (HL+)  F7 (-HL)
  register operand            E8+g / E8+gg
Second byte after a source prefix
  08 ROLD A,(src)  09 RORD A,(src)  14+rr LD rr,(src)  20 INC (src)  26 x LD (x),(src)  27 LD (HL),(src)
  28 DEC (src)  2F n MCMP (src),n  40+b SET (src).b  48+b CLR (src).b  58+r LD r,(src)  60+op op (src),(HL)
  70+op n  op (src),n  78+op  op A,(src)  A8+r XCH r,(src)  C0+b CPL (src).b  C8+b LD (src).b,CF
  D0+b XOR CF,(src).b  D8+b LD CF,(src).b  FC CALL (src)  FE JP (src)
Second byte after a destination prefix
  10+rr LD (dst),rr  2C n LD (dst),n  50+r LD (dst),r
Second byte after a register prefix
  01 SWAP g  02 MUL gg (W,A / B,C / D,E / H,L)  03 DIV gg,C  04 RETN (E8 04)  06 POP gg  07 PUSH gg  0A DAA g
  0B DAS g  10+rr XCH rr,gg  14+rr LD rr,gg  1C SHLC g  1D SHRC g  1E ROLC g  1F RORC g  30+op op WA,gg
  38+op n m  op gg,mn  40+b SET g.b  48+b CLR g.b  58+r LD r,g  60+op op A,g  68+op op g,A  70+op n  op g,n
  82/83 SET (DE).g/(HL).g  8A/8B CLR  92/93 CPL  9A/9B LD (DE).g/(HL).g,CF  9E/9F LD CF,(DE).g/(HL).g
  A8+r XCH r,g  C0+b CPL g.b  C8+b LD g.b,CF  D0+b XOR CF,g.b  D8+b LD CF,g.b
  FA LD SP,gg  FB LD gg,SP  FC CALL gg  FE JP gg

Where the first map has a dedicated code for a source form ((x) / (HL) / A operands), that code is what the form
means; the prefixed code is Toshiba's general form for the other operands.

AS syntax (golden test t_87c800, doc/processor-specific-hints.md "TLCS-870"): destination first, bit operands
`operand.bit`, (HL+d) (HL+C) (HL+) (-HL) (PC+A); default integer syntax Intel.

Not generated (and why)
  - forms with two equally short codes: LD A,A (50 / 58), op A,A (E8 60+op / E8 68+op)
  - a displacement of 0 in (HL+d) (same operand as (HL))
  - CLR r / CLR rr / CLR (src) other than (x) and (HL), LDW rr,mn, TEST: not in my copy of Toshiba's list
    (AS offers them; presumably synonyms of LD ..,0 and of LD CF / a test of the bit) - not modelled
  - the operand orders AS accepts beyond Toshiba's (XCH (src),r - MUL A,W - (C+HL) - (A+PC))
  - (HL+) / (-HL) together with H, L or HL as the other operand (AS: error 140, result undefined)
  - LD (x),(HL+) / LD (x),(-HL) / LD (HL),(HL+) / LD (HL),(-HL): AS refuses a memory-to-memory load from an
    auto-increment / decrement source; I am not sure Toshiba's list allows it - left out
  - CALL mn with mn >= 0FF00H (CALLP reaches these entries with a shorter code; what `CALL 0FF54H` means
    is not fixed by the instruction list), negative addresses
  - LD RBS,n beyond 0..15 (range checking not documented)
  - bit numbers written as symbol, expression or hex literal: AS accepts only one decimal digit (or a register)
    after the dot ("invalid bit position" otherwise) - a restriction of the AS syntax, reported, not judged
"""
from .common import Form, Int, Enum, Rel, Isa, sx

R8 = [("A", 0), ("W", 1), ("C", 2), ("B", 3), ("E", 4), ("D", 5), ("L", 6), ("H", 7)]
R16 = [("WA", 0), ("BC", 1), ("DE", 2), ("HL", 3)]
ALU = ["ADDC", "ADD", "SUBB", "SUB", "AND", "XOR", "OR", "CMP"]
CC = [("Z", 0), ("EQ", 0), ("NZ", 1), ("NE", 1), ("CS", 2), ("LT", 2), ("CC", 3), ("GE", 3), ("LE", 4), ("GT", 5),
      ("T", 6), ("F", 7)]

N8 = lambda: Int(-128, 255)
N16 = lambda: Int(-32768, 65535)
A16 = lambda: Int(0, 65535, rej_lo=False)
X8 = lambda: Int(0, 255, rej_lo=False)
DISP = lambda: Int(-128, 127, plus=True, holes=(0,))


class Bit(Int):
    """bit number after the dot: AS takes a single decimal digit there (or a register name), no expression -
    so it is always written as a decimal literal, never through a symbol or in hex"""
    kind = "bit"

    def __init__(self):
        Int.__init__(self, 0, 7)

    def render(self, v, syntax, hexa):
        return str(v)


BITN = Bit


def lo(x):
    return x & 0xff


def hi(x):
    return (x >> 8) & 0xff


class Mode:
    def __init__(self, key, text, mkops, src, dst, auto=False):
        self.key, self.text, self.mkops, self.src, self.dst, self.auto = key, text, mkops, src, dst, auto


MODES = [
    Mode("(x)", "({0})", lambda: [X8()], lambda v: [0xE0, lo(v)], lambda v: [0xF0, lo(v)]),
    Mode("(PC+A)", "(PC+A)", lambda: [], lambda v: [0xE1], None),
    Mode("(DE)", "(DE)", lambda: [], lambda v: [0xE2], lambda v: [0xF2]),
    Mode("(HL)", "(HL)", lambda: [], lambda v: [0xE3], lambda v: [0xF3]),
    Mode("(HL+d)", "(HL{0})", lambda: [DISP()], lambda v: [0xE4, lo(v)], lambda v: [0xF4, lo(v)]),
    Mode("(HL+C)", "(HL+C)", lambda: [], lambda v: [0xE5], None),
    Mode("(HL+)", "(HL+)", lambda: [], lambda v: [0xE6], lambda v: [0xF6], auto=True),
    Mode("(-HL)", "(-HL)", lambda: [], lambda v: [0xE7], lambda v: [0xF7], auto=True),
]


def build():
    F = []

    def add(name, fmt, ops, enc, rel=None):
        F.append(Form(name, fmt, ops, enc, rel))

    def fixed(name, *bs):
        add(name, name, [], (lambda b: lambda pc, v: b)(bytes(bs)))

    def mem(name, fmt, extras, kind, tail, short_x=None, short_hl=None, noauto=False):
        """one form per addressing mode.  @M = memory operand, @0 @1 = further operands.
        tail(extra values) -> bytes after the prefix; short_x(x, extra values) / short_hl(extra values) ->
        the complete code of the dedicated first-map form"""
        for m in MODES:
            if kind == "dst" and m.dst is None:
                continue
            if noauto and m.auto:
                continue
            mops = m.mkops()
            nm = len(mops)
            text = fmt.replace("@M", m.text)
            for i in range(len(extras)):
                text = text.replace("@%d" % i, "{%d}" % (nm + i))
            ops = mops + [e() for e in extras]

            def enc(pc, v, m=m, nm=nm):
                mv = v[0] if nm else None
                ev = v[nm:]
                if m.key == "(x)" and short_x is not None:
                    return bytes(short_x(lo(mv), ev))
                if m.key == "(HL)" and short_hl is not None:
                    return bytes(short_hl(ev))
                pre = m.src(mv) if kind == "src" else m.dst(mv)
                return bytes(pre + tail(ev))
            add(name.replace("@M", m.key), text, ops, enc)

    def renum(names):
        return Enum([n for n, _ in names])

    # ---------------------------------------------------------------- 8-bit load
    for rn, r in R8:
        hl_part = rn in ("H", "L")
        if rn != "A":
            fixed("LD A,%s" % rn, 0x50 | r)
            fixed("LD %s,A" % rn, 0x58 | r)
        for gn, g in R8:
            if rn != "A" and gn != "A":
                fixed("LD %s,%s" % (rn, gn), 0xE8 | g, 0x58 | r)
        add("LD %s,n" % rn, "LD %s,{0}" % rn, [N8()], (lambda o: lambda pc, v: bytes([o, lo(v[0])]))(0x30 | r))
        mem("LD %s,@M" % rn, "LD %s,@M" % rn, [], "src", (lambda o: lambda ev: [o])(0x58 | r),
            short_x=(lambda x, ev: [0x22, x]) if rn == "A" else None,
            short_hl=(lambda ev: [0x23]) if rn == "A" else None, noauto=hl_part)
        mem("LD @M,%s" % rn, "LD @M,%s" % rn, [], "dst", (lambda o: lambda ev: [o])(0x50 | r),
            short_x=(lambda x, ev: [0x2A, x]) if rn == "A" else None,
            short_hl=(lambda ev: [0x2B]) if rn == "A" else None, noauto=hl_part)
        mem("XCH %s,@M" % rn, "XCH %s,@M" % rn, [], "src", (lambda o: lambda ev: [o])(0xA8 | r), noauto=hl_part)
        for gn, g in R8:
            if gn != rn:
                fixed("XCH %s,%s" % (rn, gn), 0xE8 | g, 0xA8 | r)
    mem("LD @M,n", "LD @M,@0", [N8], "dst", lambda ev: [0x2C, lo(ev[0])],
        short_x=lambda x, ev: [0x2C, x, lo(ev[0])], short_hl=lambda ev: [0x2D, lo(ev[0])])
    # LD (x),(src) / LD (HL),(src)
    for m in MODES:
        mops = m.mkops()
        nm = len(mops)

        def enc_x(pc, v, m=m, nm=nm):
            mv = v[0] if nm else None
            if m.key == "(x)":
                return bytes([0x26, lo(mv), lo(v[nm])])
            return bytes(m.src(mv) + [0x26, lo(v[nm])])
        if m.auto:
            continue        # see "Not generated"
        add("LD (x),%s" % m.key, "LD ({%d}),%s" % (nm, m.text), mops + [X8()], enc_x)
        if m.key != "(HL)":
            add("LD (HL),%s" % m.key, "LD (HL),%s" % m.text, m.mkops(),
                (lambda mm, n_: lambda pc, v: bytes(mm.src(v[0] if n_ else None) + [0x27]))(m, nm))
    add("LDW (x),mn", "LDW ({0}),{1}", [X8(), N16()], lambda pc, v: bytes([0x24, lo(v[0]), lo(v[1]), hi(v[1])]))
    add("LDW (HL),mn", "LDW (HL),{0}", [N16()], lambda pc, v: bytes([0x25, lo(v[0]), hi(v[0])]))
    add("CLR (x)", "CLR ({0})", [X8()], lambda pc, v: bytes([0x2E, lo(v[0])]))
    fixed("CLR (HL)", 0x2F)

    # ---------------------------------------------------------------- 16-bit load, stack
    for rn, r in R16:
        add("LD %s,mn" % rn, "LD %s,{0}" % rn, [N16()],
            (lambda o: lambda pc, v: bytes([o, lo(v[0]), hi(v[0])]))(0x14 | r))
        for gn, g in R16:
            if gn != rn:
                fixed("LD %s,%s" % (rn, gn), 0xE8 | g, 0x14 | r)
                fixed("XCH %s,%s" % (rn, gn), 0xE8 | g, 0x10 | r)
        mem("LD %s,@M" % rn, "LD %s,@M" % rn, [], "src", (lambda o: lambda ev: [o])(0x14 | r), noauto=True)
        mem("LD @M,%s" % rn, "LD @M,%s" % rn, [], "dst", (lambda o: lambda ev: [o])(0x10 | r), noauto=True)
        fixed("LD SP,%s" % rn, 0xE8 | r, 0xFA)
        fixed("LD %s,SP" % rn, 0xE8 | r, 0xFB)
        fixed("PUSH " + rn, 0xE8 | r, 0x07)
        fixed("POP " + rn, 0xE8 | r, 0x06)
        fixed("JP " + rn, 0xE8 | r, 0xFE)
        fixed("CALL " + rn, 0xE8 | r, 0xFC)
        fixed("INC " + rn, 0x10 | r)
        fixed("DEC " + rn, 0x18 | r)
    add("LD SP,mn", "LD SP,{0}", [N16()], lambda pc, v: bytes([0xFA, lo(v[0]), hi(v[0])]))
    fixed("PUSH PSW", 0x07)
    fixed("POP PSW", 0x06)
    add("LD RBS,n", "LD RBS,{0}", [Int(0, 15, rej_lo=False, rej_hi=False)], lambda pc, v: bytes([0x0F, v[0]]))

    # ---------------------------------------------------------------- arithmetic / logic
    for i, m in enumerate(ALU):
        add("%s A,n" % m, "%s A,{0}" % m, [N8()], (lambda o: lambda pc, v: bytes([o, lo(v[0])]))(0x70 | i))
        for gn, g in R8:
            if gn != "A":
                fixed("%s A,%s" % (m, gn), 0xE8 | g, 0x60 | i)
                fixed("%s %s,A" % (m, gn), 0xE8 | g, 0x68 | i)
                add("%s %s,n" % (m, gn), "%s %s,{0}" % (m, gn), [N8()],
                    (lambda p, o: lambda pc, v: bytes([p, o, lo(v[0])]))(0xE8 | g, 0x70 | i))
        mem("%s A,@M" % m, "%s A,@M" % m, [], "src", (lambda o: lambda ev: [o])(0x78 | i),
            short_x=(lambda o: lambda x, ev: [o, x])(0x78 | i))
        mem("%s @M,(HL)" % m, "%s @M,(HL)" % m, [], "src", (lambda o: lambda ev: [o])(0x60 | i))
        mem("%s @M,n" % m, "%s @M,@0" % m, [N8], "src", (lambda o: lambda ev: [o, lo(ev[0])])(0x70 | i))
        for gn, g in R16:
            fixed("%s WA,%s" % (m, gn), 0xE8 | g, 0x30 | i)
            add("%s %s,mn" % (m, gn), "%s %s,{0}" % (m, gn), [N16()],
                (lambda p, o: lambda pc, v: bytes([p, o, lo(v[0]), hi(v[0])]))(0xE8 | g, 0x38 | i))
    mem("MCMP @M,n", "MCMP @M,@0", [N8], "src", lambda ev: [0x2F, lo(ev[0])])
    for m, o in (("INC", 0x60), ("DEC", 0x68)):
        for rn, r in R8:
            fixed("%s %s" % (m, rn), o | r)
    mem("INC @M", "INC @M", [], "src", lambda ev: [0x20], short_x=lambda x, ev: [0x20, x], short_hl=lambda ev: [0x21])
    mem("DEC @M", "DEC @M", [], "src", lambda ev: [0x28], short_x=lambda x, ev: [0x28, x], short_hl=lambda ev: [0x29])
    for m, o in (("SWAP", 0x01), ("DAA", 0x0A), ("DAS", 0x0B), ("SHLC", 0x1C), ("SHRC", 0x1D), ("ROLC", 0x1E),
                 ("RORC", 0x1F)):
        fixed(m + " A", o)
        for gn, g in R8:
            if gn != "A":
                fixed("%s %s" % (m, gn), 0xE8 | g, o)
    fixed("MUL W,A", 0x02)
    for hn, ln, g in (("B", "C", 1), ("D", "E", 2), ("H", "L", 3)):
        fixed("MUL %s,%s" % (hn, ln), 0xE8 | g, 0x02)
    fixed("DIV WA,C", 0x03)
    for gn, g in R16:
        if gn != "WA":
            fixed("DIV %s,C" % gn, 0xE8 | g, 0x03)
    mem("ROLD A,@M", "ROLD A,@M", [], "src", lambda ev: [0x08])
    mem("RORD A,@M", "RORD A,@M", [], "src", lambda ev: [0x09])

    # ---------------------------------------------------------------- bit manipulation
    fixed("CLR CF", 0x0C)
    fixed("SET CF", 0x0D)
    fixed("CPL CF", 0x0E)
    BITOPS = (("SET @B", 0x40, 0x40), ("CLR @B", 0x48, 0x48), ("CPL @B", 0xC0, None), ("LD @B,CF", 0xC8, None),
              ("XOR CF,@B", 0xD0, None), ("LD CF,@B", 0xD8, 0xD8))
    for tpl, o, short in BITOPS:
        for gn, g in R8:
            add(tpl.replace("@B", gn + ".b"), tpl.replace("@B", gn + ".{0}"), [BITN()],
                (lambda p, oo: lambda pc, v: bytes([p, oo | v[0]]))(0xE8 | g, o))
        mem(tpl.replace("@B", "@M.b"), tpl.replace("@B", "@M.@0"), [BITN], "src",
            (lambda oo: lambda ev: [oo | ev[0]])(o),
            short_x=(lambda oo: lambda x, ev: [oo | ev[0], x])(short) if short is not None else None)
    # bit number in a register: (DE).g / (HL).g
    for tpl, o in (("SET @B", 0x80), ("CLR @B", 0x88), ("CPL @B", 0x90), ("LD @B,CF", 0x98), ("LD CF,@B", 0x9C)):
        for pn, p in (("DE", 2), ("HL", 3)):
            for gn, g in R8:
                t = tpl.replace("@B", "(%s).%s" % (pn, gn))
                fixed(t, 0xE8 | g, o | p)

    # ---------------------------------------------------------------- jump, call, return
    add("JP mn", "JP {0}", [A16()], lambda pc, v: bytes([0xFE, lo(v[0]), hi(v[0])]))
    add("CALL mn", "CALL {0}", [Int(0, 0xFEFF, rej_lo=False, rej_from=0x10000)],
        lambda pc, v: bytes([0xFC, lo(v[0]), hi(v[0])]))
    mem("JP @M", "JP @M", [], "src", lambda ev: [0xFE], noauto=True)
    mem("CALL @M", "CALL @M", [], "src", lambda ev: [0xFC], noauto=True)
    add("CALLV n", "CALLV {0}", [Int(0, 15, rej_lo=False)], lambda pc, v: bytes([0xC0 | v[0]]))
    add("CALLP n", "CALLP {0}", [Int(0, 255, rej_lo=False, rej_hi=False)], lambda pc, v: bytes([0xFD, v[0]]))
    add("CALLP 0FFn", "CALLP {0}", [Int(0xFF00, 0xFFFF, rej_lo=False)], lambda pc, v: bytes([0xFD, lo(v[0])]))
    rel8 = (0, lambda b: sx(b[1], 8))
    add("JR $+2+d", "JR {0}", [Rel(-128, 127, 2)], lambda pc, v: bytes([0xFB, lo(v[0])]), rel8)
    add("JR cc,$+2+d", "JR {0},{1}", [renum(CC), Rel(-128, 127, 2)],
        lambda pc, v: bytes([0xD0 | CC[v[0]][1], lo(v[1])]), (1, lambda b: sx(b[1], 8)))
    add("JRS T,$+2+d", "JRS T,{0}", [Rel(-16, 15, 2)], lambda pc, v: bytes([0x80 | (v[0] & 0x1f)]),
        (0, lambda b: sx(b[0], 5)))
    add("JRS F,$+2+d", "JRS F,{0}", [Rel(-16, 15, 2)], lambda pc, v: bytes([0xA0 | (v[0] & 0x1f)]),
        (0, lambda b: sx(b[0], 5)))
    fixed("RET", 0x05)
    fixed("RETI", 0x04)
    fixed("RETN", 0xE8, 0x04)
    fixed("SWI", 0xFF)
    fixed("NOP", 0x00)
    # interrupt master enable flag IMF = bit 0 of EIRL (003AH): Toshiba lists EI / DI as SET / CLR (003AH).0
    fixed("EI", 0x40, 0x3A)
    fixed("DI", 0x48, 0x3A)
    return F


ISAS = [
    Isa("TLCS-870", "87C00", build(), "intel", pcsym="$", slot=8, base=0x1000, offsets=[0, 1, 3],
        golden=[("t_87c800", {"87c70": True})]),
]
