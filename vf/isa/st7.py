"""SGS-Thomson ST7 reference encoder.

Source of truth: ST7 Family Programming Manual (SGS-Thomson / STMicroelectronics), chapters "Addressing
modes", "Pre-byte" (PDY 90h, PIY 91h, PIX 92h) and the opcode map.  Written from that definition, not
from codest7.c.

Opcode map (high nibble = row, low nibble = column):

  row 0   BTJT $xx,#b,rel = 00h+2b    BTJF = 01h+2b         (opcode, address, displacement)
  row 1   BSET $xx,#b     = 10h+2b    BRES = 11h+2b         (opcode, address)
  row 2   JRA/JRT JRF JRUGT JRULE JRNC/JRUGE JRC/JRULT JRNE JREQ JRNH JRH JRPL JRMI JRNM JRM JRIL JRIH
  rows 3..7  one-operand (read-modify-write) group: short direct / A / X / (short,X) / (X)
          columns 0 NEG  3 CPL  4 SRL  6 RRC  7 SRA  8 SLL=SLA  9 RLC  A DEC  C INC  D TNZ  E SWAP  F CLR
          42h = MUL X,A
  row 8   80 IRET  81 RET  83 TRAP  84 POP A  85 POP X  86 POP CC  88 PUSH A  89 PUSH X  8A PUSH CC  8E HALT  8F WFI
  row 9   90 PDY  91 PIY  92 PIX  93 LD X,Y  94 LD S,X  95 LD S,A  96 LD X,S  97 LD X,A  98 RCF  99 SCF  9A RIM
          9B SIM  9C RSP  9D NOP  9E LD A,S  9F LD A,X
  rows A..F  two-operand group: immediate / short direct / long direct / (long,X) / (short,X) / (X)
          columns 0 SUB  1 CP  2 SBC  3 CP X  4 AND  5 BCP  6 LD A  7 LD mem,A  8 XOR  9 ADC  A OR  B ADD
                  C JP  D CALL (ADh = CALLR rel)  E LD X  F LD mem,X

Pre-bytes (programming manual, "Pre-byte" table):
  PDY 90h  replaces X by Y: register Y instead of X, (Y) / (short,Y) / (long,Y) instead of the X indexed modes
  PIX 92h  replaces a direct mode by the indirect one ([short] / [short.w]) and an X indexed mode with offset
           by the X indexed indirect one (([short],X) / ([short.w],X)); relative -> relative indirect
  PIY 91h  replaces an X indexed mode with offset by the Y indexed indirect one (([short],Y) / ([short.w],Y));
           for the instructions on register Y also direct -> indirect ([short] / [short.w])
Long addresses and offsets are stored high byte first.  Relative displacements count from the address of the
following instruction.

Operand size selection (doc/processor-specific-hints.md, "ST7"): an address or offset 0..255 selects the
short form, a larger one the long form; the postfix .w forces the long form.  The forms are generated
accordingly: "short" 0..255, "long" 256..65535 and "long.w" 0..65535.  Where an instruction has no long form
(one-operand group, bit instructions, all pointers of the indirect modes) 256 must be rejected.

Integer syntax: doc/pseudo-instructions-and-integer-syntax.md announces Intel syntax for ST7, the assembler and
its own test t_st7 use Motorola syntax ($12); the table follows the test.

Not generated: negative addresses, LD between equal registers, the STM8 extensions.
"""
from .common import Form, Int, Rel, Isa, sx

# two-operand group: column of the opcode map
COL2 = {"SUB": 0x0, "CP": 0x1, "SBC": 0x2, "AND": 0x4, "BCP": 0x5, "LD": 0x6, "XOR": 0x8, "ADC": 0x9, "OR": 0xA,
        "ADD": 0xB}
COL_CPX, COL_STA, COL_JP, COL_CALL, COL_LDX, COL_STX = 0x3, 0x7, 0xC, 0xD, 0xE, 0xF
# one-operand group
COL1 = {"NEG": 0x0, "CPL": 0x3, "SRL": 0x4, "RRC": 0x6, "SRA": 0x7, "SLL": 0x8, "SLA": 0x8, "RLC": 0x9, "DEC": 0xA,
        "INC": 0xC, "TNZ": 0xD, "SWAP": 0xE, "CLR": 0xF}
INHERENT = {"IRET": 0x80, "RET": 0x81, "TRAP": 0x83, "HALT": 0x8E, "WFI": 0x8F, "RCF": 0x98, "SCF": 0x99,
            "RIM": 0x9A, "SIM": 0x9B, "RSP": 0x9C, "NOP": 0x9D}
JR = {"JRA": 0x20, "JRT": 0x20, "JRF": 0x21, "JRUGT": 0x22, "JRULE": 0x23, "JRNC": 0x24, "JRUGE": 0x24,
      "JRC": 0x25, "JRULT": 0x25, "JRNE": 0x26, "JREQ": 0x27, "JRNH": 0x28, "JRH": 0x29, "JRPL": 0x2A,
      "JRMI": 0x2B, "JRNM": 0x2C, "JRM": 0x2D, "JRIL": 0x2E, "JRIH": 0x2F}
CALLR = 0xAD
PDY, PIY, PIX = 0x90, 0x91, 0x92
# register transfers
LDREG = {("X", "Y"): (0x93,), ("S", "X"): (0x94,), ("S", "A"): (0x95,), ("X", "S"): (0x96,), ("X", "A"): (0x97,),
         ("A", "S"): (0x9E,), ("A", "X"): (0x9F,),
         ("Y", "X"): (PDY, 0x93), ("S", "Y"): (PDY, 0x94), ("Y", "S"): (PDY, 0x96), ("Y", "A"): (PDY, 0x97),
         ("A", "Y"): (PDY, 0x9F)}
STACK = {("POP", "A"): (0x84,), ("POP", "X"): (0x85,), ("POP", "Y"): (PDY, 0x85), ("POP", "CC"): (0x86,),
         ("PUSH", "A"): (0x88,), ("PUSH", "X"): (0x89,), ("PUSH", "Y"): (PDY, 0x89), ("PUSH", "CC"): (0x8A,)}

IMM = lambda: Int(-128, 255)
BITNO = lambda: Int(0, 7)


def SHORT(has_long):
    # without a long form the value 256 cannot be encoded and must be rejected
    return Int(0, 255, rej_lo=False, rej_hi=not has_long)


LONG = lambda: Int(256, 65535, rej_lo=False)
LONGW = lambda: Int(0, 65535, rej_lo=False)
PTR = lambda: Int(0, 255, rej_lo=False)

# two-operand group, addressing modes:
#   tag, operand text, operand kind, prebyte, row, index register (None / X / Y)
# kind: i = immediate byte, s = short, l = long (value > 255), w = long forced by .w, p = pointer, - = none
MODES2 = [
    ("#imm", "#{0}", "i", None, 0xA, None),
    ("short", "{0}", "s", None, 0xB, None),
    ("long", "{0}", "l", None, 0xC, None),
    ("long.w", "{0}.w", "w", None, 0xC, None),
    ("(X)", "(X)", "-", None, 0xF, "X"),
    ("(short,X)", "({0},X)", "s", None, 0xE, "X"),
    ("(long,X)", "({0},X)", "l", None, 0xD, "X"),
    ("(long.w,X)", "({0}.w,X)", "w", None, 0xD, "X"),
    ("(Y)", "(Y)", "-", PDY, 0xF, "Y"),
    ("(short,Y)", "({0},Y)", "s", PDY, 0xE, "Y"),
    ("(long,Y)", "({0},Y)", "l", PDY, 0xD, "Y"),
    ("(long.w,Y)", "({0}.w,Y)", "w", PDY, 0xD, "Y"),
    ("[short]", "[{0}]", "p", PIX, 0xB, None),
    ("[short.w]", "[{0}.w]", "p", PIX, 0xC, None),
    ("([short],X)", "([{0}],X)", "p", PIX, 0xE, "X"),
    ("([short.w],X)", "([{0}.w],X)", "p", PIX, 0xD, "X"),
    ("([short],Y)", "([{0}],Y)", "p", PIY, 0xE, "Y"),
    ("([short.w],Y)", "([{0}.w],Y)", "p", PIY, 0xD, "Y"),
]

# one-operand group: tag, text, kind, prebyte, row
MODES1 = [
    ("A", "A", "-", None, 0x4),
    ("X", "X", "-", None, 0x5),
    ("Y", "Y", "-", PDY, 0x5),
    ("short", "{0}", "s", None, 0x3),
    ("(X)", "(X)", "-", None, 0x7),
    ("(short,X)", "({0},X)", "s", None, 0x6),
    ("(Y)", "(Y)", "-", PDY, 0x7),
    ("(short,Y)", "({0},Y)", "s", PDY, 0x6),
    ("[short]", "[{0}]", "p", PIX, 0x3),
    ("([short],X)", "([{0}],X)", "p", PIX, 0x6),
    ("([short],Y)", "([{0}],Y)", "p", PIY, 0x6),
]


def _op(kind, has_long=True):
    return {"i": IMM, "s": lambda: SHORT(has_long), "l": LONG, "w": LONGW, "p": PTR, "-": None}[kind]


def _enc(pre, opcode, kind, oi=0):
    head = bytes(([pre] if pre is not None else []) + [opcode])
    if kind == "-":
        return lambda pc, v: head
    if kind in ("l", "w"):
        return lambda pc, v: head + bytes([(v[oi] >> 8) & 0xff, v[oi] & 0xff])
    return lambda pc, v: head + bytes([v[oi] & 0xff])


def _modes_for_reg(reg):
    """addressing modes of the instructions on X (CP X, LD X, LD mem,X) and on Y: the index register can only be
    the register itself; for Y every opcode carries PDY, or PIY in place of PIX"""
    out = []
    for tag, txt, kind, pre, row, idx in MODES2:
        if reg == "X":
            if idx == "Y":
                continue
            out.append((tag, txt, kind, pre, row))
        else:
            if idx == "X":
                continue
            if pre is None:
                pre = PDY
            elif pre == PIX:
                pre = PIY
            out.append((tag, txt, kind, pre, row))
    return out


def build():
    F = []

    def add(name, fmt, ops, enc, **kw):
        F.append(Form(name, fmt, ops, enc, **kw))

    for m, op in INHERENT.items():
        add(m, m, [], (lambda op: lambda pc, v: bytes([op]))(op))
    for (d, s), code in LDREG.items():
        add("LD %s,%s" % (d, s), "LD %s,%s" % (d, s), [], (lambda c: lambda pc, v: bytes(c))(code))
    for (m, r), code in STACK.items():
        add("%s %s" % (m, r), "%s %s" % (m, r), [], (lambda c: lambda pc, v: bytes(c))(code))
    add("MUL X,A", "MUL X,A", [], lambda pc, v: bytes([0x42]))
    add("MUL Y,A", "MUL Y,A", [], lambda pc, v: bytes([PDY, 0x42]))

    # two-operand group on A
    for m, col in COL2.items():
        for tag, txt, kind, pre, row, idx in MODES2:
            mk = _op(kind)
            add("%s A,%s" % (m, tag), "%s A,%s" % (m, txt), [mk()] if mk else [], _enc(pre, row << 4 | col, kind))
    # store A, JP, CALL: no immediate
    for tag, txt, kind, pre, row, idx in MODES2:
        if kind == "i":
            continue
        mk = _op(kind)
        ops = lambda: [mk()] if mk else []
        add("LD %s,A" % tag, "LD %s,A" % txt, ops(), _enc(pre, row << 4 | COL_STA, kind))
        add("JP " + tag, "JP " + txt, ops(), _enc(pre, row << 4 | COL_JP, kind))
        add("CALL " + tag, "CALL " + txt, ops(), _enc(pre, row << 4 | COL_CALL, kind))
    # CP / LD / store with X and Y
    for reg in ("X", "Y"):
        for tag, txt, kind, pre, row in _modes_for_reg(reg):
            mk = _op(kind)
            ops = lambda: [mk()] if mk else []
            add("CP %s,%s" % (reg, tag), "CP %s,%s" % (reg, txt), ops(), _enc(pre, row << 4 | COL_CPX, kind))
            add("LD %s,%s" % (reg, tag), "LD %s,%s" % (reg, txt), ops(), _enc(pre, row << 4 | COL_LDX, kind))
            if kind != "i":
                add("LD %s,%s" % (tag, reg), "LD %s,%s" % (txt, reg), ops(), _enc(pre, row << 4 | COL_STX, kind))

    # one-operand group (no long forms: 256 must be rejected)
    for m, col in COL1.items():
        for tag, txt, kind, pre, row in MODES1:
            mk = _op(kind, has_long=False)
            add("%s %s" % (m, tag), "%s %s" % (m, txt), [mk()] if mk else [], _enc(pre, row << 4 | col, kind))

    # bit instructions
    for m, base in (("BSET", 0x10), ("BRES", 0x11)):
        add(m + " short,#b", m + " {0},#{1}", [SHORT(False), BITNO()],
            (lambda base: lambda pc, v: bytes([base + 2 * v[1], v[0] & 0xff]))(base))
        add(m + " [short],#b", m + " [{0}],#{1}", [PTR(), BITNO()],
            (lambda base: lambda pc, v: bytes([PIX, base + 2 * v[1], v[0] & 0xff]))(base))
    for m, base in (("BTJT", 0x00), ("BTJF", 0x01)):
        add(m + " short,#b,rel", m + " {0},#{1},{2}", [SHORT(False), BITNO(), Rel(-128, 127, 3)],
            (lambda base: lambda pc, v: bytes([base + 2 * v[1], v[0] & 0xff, v[2] & 0xff]))(base),
            rel=(2, lambda b: sx(b[2], 8)))
        add(m + " [short],#b,rel", m + " [{0}],#{1},{2}", [PTR(), BITNO(), Rel(-128, 127, 4)],
            (lambda base: lambda pc, v: bytes([PIX, base + 2 * v[1], v[0] & 0xff, v[2] & 0xff]))(base),
            rel=(2, lambda b: sx(b[3], 8)))

    # relative jumps, relative and relative indirect
    for m, op in list(JR.items()) + [("CALLR", CALLR)]:
        add(m + " rel", m + " {0}", [Rel(-128, 127, 2)],
            (lambda op: lambda pc, v: bytes([op, v[0] & 0xff]))(op), rel=(0, lambda b: sx(b[1], 8)))
        add(m + " [short]", m + " [{0}]", [PTR()],
            (lambda op: lambda pc, v: bytes([PIX, op, v[0] & 0xff]))(op))
    return F


ISAS = [
    Isa("ST7", "ST7", build(), "mot", pcsym="PC", slot=8, base=0x1000, offsets=[0, 1, 4],
        golden=[("t_st7", {"st7": True})]),
]
