"""Hitachi HMCS400 series reference encoder (HMCS400 Series Handbook / HD6140xx and HD404xxx data
sheets, "Instruction set": immediate, register-to-register, RAM address, RAM-register, arithmetic,
compare, RAM bit manipulation, ROM address, input/output and control instructions).  Written from
Hitachi's definition, not from codehmcs400.c.

Instruction words have 10 bits; a ROM address holds one word.  In the code file every word occupies
one 16-bit unit (little endian, doc/file-formats.md), the upper six bits are zero.  Two-word
instructions carry a 10-bit RAM address d9..d0 (or the low ten bits of a ROM address) in the second word.

Hitachi's regularities used below
  xxxD forms (direct RAM address in the 2nd word) = the register-indirect form's word with bit 8 set
  (XY) suffixes: bit 0 = exchange X<->SPX, bit 1 = exchange Y<->SPY;  LMAIY/LMADY(X): bit 0 only
  BR b     11 b7..b0     branch inside the current page; the page is that of the program counter
                         *after* the fetch, so a BR at address 256n+255 branches into page n+1
                         (Hitachi: "a BR instruction on a page boundary transfers to the next page")
  BRL/JMPL/CALL u        0101 11/01/10 p3..p0 + d9..d0: 14-bit address u = p:d
  CAL a    0111 a5..a0   subroutine space 0000..003F
  TBR p / P p            p = 4-bit value forming the upper address bits of the table / pattern

Hitachi's operand order is kept: LMID i,d / INEMD i,d / ILEMD i,d / SEMD n,d / REMD n,d / TMD n,d.

Ranges: the device modelled for the limits is the CPU named in the Isa (HD614023: 2K words of ROM,
HD614081: 8K); ROM addresses up to the device's ROM size are generated, addresses between the ROM size
and the 14-bit limit are not generated, addresses from 4000H on cannot be encoded and must be rejected.
RAM addresses d: generated up to the limit AS documents for the device's DATA segment (table "Address
Ranges for ORG": 160 digits for the HD614023; HD614081: 512); addresses between that limit and the end
of the 10-bit field are not generated (Hitachi's RAM space also holds the stack area 3C0H..3FFH, which
AS does not admit as a direct address - assembler policy, not settled by the instruction set);
addresses from 400H on cannot be encoded and must be rejected.

Not generated: negative 4-bit operands (two's-complement reading not settled; AS takes -1 as 15); AS's
meta instructions LD/XCH/ADD/... (assembler specific); LAW/LWA/STS (not part of every member's set).
"""
from .common import Form, Int, Rel, Isa, le16

I4 = lambda: Int(0, 15, rej_lo=False)       # 4-bit data
N4 = lambda: Int(0, 15, rej_lo=False)       # 4-bit register / port / page number
N2 = lambda: Int(0, 3)                      # bit number, W value


class PageAddr(Rel):
    """8-bit address inside the 256-word page of pc+1; value = offset from that page's base"""

    def __init__(self):
        Rel.__init__(self, 0, 255, 0, 1, band=6)

    def target(self, v, pc):
        return ((pc + 1) & ~0xff) + v

    def from_target(self, t, pc):
        return t - ((pc + 1) & ~0xff)


def build(romsize, ramsize):
    F = []
    D10 = lambda: Int(0, ramsize - 1, rej_lo=False, rej_from=0x400)
    U14 = lambda: Int(0, romsize - 1, rej_lo=False, rej_from=0x4000)

    def w1(name, op):
        F.append(Form(name, name, [], (lambda o: lambda pc, v: le16(o))(op)))

    def w1i(name, op, kind):
        F.append(Form(name, name + " {0}", [kind()], (lambda o: lambda pc, v: le16(o | v[0]))(op)))

    def w2d(name, op):
        F.append(Form(name, name + " {0}", [D10()], (lambda o: lambda pc, v: le16(o) + le16(v[0]))(op)))

    def w2id(name, op, kind):
        F.append(Form(name, name + " {0},{1}", [kind(), D10()],
                      (lambda o: lambda pc, v: le16(o | v[0]) + le16(v[1]))(op)))

    # immediate
    w1i("LAI", 0x230, I4)
    w1i("LBI", 0x200, I4)
    w2id("LMID", 0x1A0, I4)
    w1i("LMIIY", 0x290, I4)
    # register to register
    w1("LAB", 0x048)
    w1("LBA", 0x0C8)
    w1("LAY", 0x0AF)
    w1("LASPX", 0x068)
    w1("LASPY", 0x058)
    w1i("LAMR", 0x270, N4)
    w1i("XMRA", 0x2F0, N4)
    # RAM address
    w1i("LWI", 0x0F0, N2)
    w1i("LXI", 0x220, I4)
    w1i("LYI", 0x210, I4)
    w1("LXA", 0x0E8)
    w1("LYA", 0x0D8)
    w1("IY", 0x05C)
    w1("DY", 0x0DF)
    w1("AYY", 0x054)
    w1("SYY", 0x0D4)
    w1("XSPX", 0x001)
    w1("XSPY", 0x002)
    w1("XSPXY", 0x003)
    # RAM register
    for m, op in (("LAM", 0x090), ("LBM", 0x040), ("LMA", 0x094), ("XMA", 0x080), ("XMB", 0x0C0)):
        for i, sfx in enumerate(["", "X", "Y", "XY"]):
            w1(m + sfx, op | i)
    for m, op in (("LMAIY", 0x050), ("LMADY", 0x0D0)):
        w1(m, op)
        w1(m + "X", op | 1)
    w2d("LAMD", 0x190)
    w2d("LMAD", 0x194)
    w2d("XMAD", 0x180)
    # arithmetic
    w1i("AI", 0x280, I4)
    w1("IB", 0x04C)
    w1("DB", 0x0CF)
    w1("DAA", 0x0A6)
    w1("DAS", 0x0AA)
    w1("NEGA", 0x060)
    w1("COMB", 0x140)
    w1("ROTR", 0x0A0)
    w1("ROTL", 0x0A1)
    w1("SEC", 0x0EF)
    w1("REC", 0x0EC)
    w1("TC", 0x06F)
    for m, op in (("AM", 0x008), ("AMC", 0x018), ("SMC", 0x098), ("ANM", 0x09C), ("ORM", 0x00C), ("EORM", 0x01C)):
        w1(m, op)
        w2d(m + "D", op | 0x100)
    w1("OR", 0x144)
    # compare
    w1i("INEM", 0x020, I4)
    w2id("INEMD", 0x120, I4)
    w1("ANEM", 0x004)
    w2d("ANEMD", 0x104)
    w1("BNEM", 0x044)
    w1i("YNEI", 0x070, I4)
    w1i("ILEM", 0x030, I4)
    w2id("ILEMD", 0x130, I4)
    w1("ALEM", 0x014)
    w2d("ALEMD", 0x114)
    w1("BLEM", 0x0C4)
    w1i("ALEI", 0x2B0, I4)
    # RAM bit manipulation
    for m, op in (("SEM", 0x084), ("REM", 0x088), ("TM", 0x08C)):
        w1i(m, op, N2)
        w2id(m + "D", op | 0x100, N2)
    # ROM address
    F.append(Form("BR", "BR {0}", [PageAddr()], lambda pc, v: le16(0x300 | v[0]),
                  rel=(0, lambda b: b[0])))
    for m, op in (("BRL", 0x170), ("JMPL", 0x150), ("CALL", 0x160)):
        F.append(Form(m, m + " {0}", [U14()],
                      (lambda o: lambda pc, v: le16(o | v[0] >> 10) + le16(v[0] & 0x3ff))(op)))
    F.append(Form("CAL", "CAL {0}", [Int(0, 63, rej_lo=False)], lambda pc, v: le16(0x1C0 | v[0])))
    w1i("TBR", 0x0B0, N4)
    w1("RTN", 0x010)
    w1("RTNI", 0x011)
    # input / output
    w1("SED", 0x0E4)
    w1i("SEDD", 0x2E0, N4)
    w1("RED", 0x064)
    w1i("REDD", 0x260, N4)
    w1("TD", 0x0E0)
    w1i("TDD", 0x2A0, N4)
    w1i("LAR", 0x250, N4)
    w1i("LBR", 0x240, N4)
    w1i("LRA", 0x2D0, N4)
    w1i("LRB", 0x2C0, N4)
    w1i("P", 0x1B0, N4)
    # control
    w1("NOP", 0x000)
    w1("SBY", 0x14C)
    w1("STOP", 0x14D)
    F.sort(key=lambda f: f.name != "NOP")   # form 0 = filler without operands
    return F


def isa(cpu, romsize, ramsize):
    return Isa("HMCS400-" + cpu, cpu, build(romsize, ramsize), "mot", pcsym="*", gran=2, slot=4, base=0x100,
               maxaddr=romsize - 1, offsets=[0, 1], page_end=(256, 0xFF),
               golden=[("t_hmcs4x", {"hd614023": True})])


ISAS = [isa("HD614023", 0x800, 160), isa("HD614081", 0x2000, 512)]
