"""Intel 8087 numeric data processor - reference encoder, written from Intel's definition (iAPX 86/88
User's Manual, Numerics Supplement / 8087 data sheet, table "8087 Extensions to the 8086/8088
Instruction Set"), not from code86.c.

Every 8087 instruction is an 8086 ESCAPE instruction 11011xxx + mod/r-m byte:

  data transfer, memory     ESC MF 1 | mod ooo r/m     MF 00 short real (DWORD)   01 short integer (DWORD)
  arithmetic/compare memory ESC MF 0 | mod ooo r/m        10 long real (QWORD)    11 word integer (WORD)
     FLD ooo=000  FST 010  FSTP 011;  FADD 000 FMUL 001 FCOM 010 FCOMP 011 FSUB 100 FSUBR 101 FDIV 110 FDIVR 111
  long integer (QWORD)      FILD DF /5   FISTP DF /7          temporary real (TBYTE)  FLD DB /5   FSTP DB /7
  packed BCD (TBYTE)        FBLD DF /4   FBSTP DF /6
  register stack            FLD ST(i) D9 C0+i   FXCH D9 C8+i   FST DD D0+i   FSTP DD D8+i   FFREE DD C0+i
                            FCOM D8 D0+i   FCOMP D8 D8+i   FCOMPP DE D9
  arithmetic, stack         ESC d P 0 | 11 ooo i       d = 0 destination ST, d = 1 destination ST(i), P = pop
                            FSUB/FSUBR and FDIV/FDIVR: 1110R / 1111R with R xor d = 0 "destination op source"
                            (FSUB ST,ST(i) D8 E0+i; FSUB ST(i),ST DC E8+i; FSUBP ST(i),ST DE E8+i;
                             FSUBR ST,ST(i) D8 E8+i; FSUBR ST(i),ST DC E0+i; FSUBRP ST(i),ST DE E0+i; FDIV alike)
  classical stack form      FADD/FSUB/FSUBR/FMUL/FDIV/FDIVR without operands = <op>P ST(1),ST   (ASM-86 manual)
  implied operand           FXCH / FCOM / FCOMP without operand: "if the destination (source) is not coded
                            explicitly, ST(1) is used" = D9 C9 / D8 D1 / D8 D9
  constants, transcendentals, control: D9 xx / DB Ex, memory control operands D9 /4../7, DD /4,/6,/7

WAIT: ASM-86 precedes every 8087 instruction with WAIT (9B) except the FN.. (no-wait) forms Intel
defines: FNINIT FNCLEX FNENI FNDISI FNSTCW FNSTSW FNSTENV FNSAVE.  The AS manual documents the same
(processor-specific-hints.md, 8086: "automatically inserting a WAIT instruction prior to every 8087
instruction ... an N has to be inserted after the F").  A segment override prefix stands between WAIT
and the ESCAPE opcode (it is a prefix of the ESCAPE instruction, WAIT is an instruction of its own).

Operand size is written with the AS size operators WORD/DWORD/QWORD/TBYTE PTR; memory operands are the
operand kinds of vf/isa/i8086.py (mod/r-m, shortest displacement, segment prefix).

Not generated:
  - FN variants of other than the eight instructions above (AS extension), the raw ESC instruction
  - one-operand FADD ST(i) etc. (not an ASM-86 form)
  - FSTENV/FLDENV/FSAVE/FRSTOR with a size operator (the 14/94 byte areas have no type)
  - 80287/80387 additions (FSTSW AX, FSETPM, ...)
"""
from .common import Form, Int, Enum, Isa
from .i8086 import mems, number, rmbytes

WAIT = b"\x9b"


def STI(holes=()):
    # ST(i): 3-bit stack register number, ST(8) / ST(-1) cannot be encoded
    return Int(0, 7, far=True, holes=holes)


def build():
    F = []

    def add(name, tmpl, ops, enc):
        F.append(Form(name, number(tmpl), ops, enc))

    def fixed(m, *bs, nowait=None):
        add(m, m, [], (lambda bs: lambda pc, v: WAIT + bytes(bs))(bs))
        if nowait:
            add(nowait, nowait, [], (lambda bs: lambda pc, v: bytes(bs))(bs))

    # ------------------------------------------------------------ no operands
    for m, b2 in (("FCHS", 0xE0), ("FABS", 0xE1), ("FTST", 0xE4), ("FXAM", 0xE5),
                  ("FLD1", 0xE8), ("FLDL2T", 0xE9), ("FLDL2E", 0xEA), ("FLDPI", 0xEB), ("FLDLG2", 0xEC),
                  ("FLDLN2", 0xED), ("FLDZ", 0xEE),
                  ("F2XM1", 0xF0), ("FYL2X", 0xF1), ("FPTAN", 0xF2), ("FPATAN", 0xF3), ("FXTRACT", 0xF4),
                  ("FDECSTP", 0xF6), ("FINCSTP", 0xF7), ("FPREM", 0xF8), ("FYL2XP1", 0xF9), ("FSQRT", 0xFA),
                  ("FRNDINT", 0xFC), ("FSCALE", 0xFD), ("FNOP", 0xD0)):
        fixed(m, 0xD9, b2)
    fixed("FCOMPP", 0xDE, 0xD9)
    fixed("FENI", 0xDB, 0xE0, nowait="FNENI")
    fixed("FDISI", 0xDB, 0xE1, nowait="FNDISI")
    fixed("FCLEX", 0xDB, 0xE2, nowait="FNCLEX")
    fixed("FINIT", 0xDB, 0xE3, nowait="FNINIT")
    add("FWAIT", "FWAIT", [], lambda pc, v: WAIT)

    # ------------------------------------------------------------ register stack
    for m, esc, b in (("FLD", 0xD9, 0xC0), ("FXCH", 0xD9, 0xC8), ("FST", 0xDD, 0xD0), ("FSTP", 0xDD, 0xD8),
                      ("FFREE", 0xDD, 0xC0), ("FCOM", 0xD8, 0xD0), ("FCOMP", 0xD8, 0xD8)):
        add(m + " ST(i)", m + " ST({})", [STI()], (lambda esc, b: lambda pc, v: WAIT + bytes([esc, b | v[0]]))(esc, b))

    # implied ST(1)
    fixed("FXCH", 0xD9, 0xC9)
    fixed("FCOM", 0xD8, 0xD1)
    fixed("FCOMP", 0xD8, 0xD9)

    # arithmetic: (mnemonic, ooo of the memory form / of d=0, ooo of d=1)
    ARITH = (("FADD", 0, 0), ("FMUL", 1, 1), ("FSUB", 4, 5), ("FSUBR", 5, 4), ("FDIV", 6, 7), ("FDIVR", 7, 6))
    for m, o0, o1 in ARITH:
        add(m + " ST,ST(i)", m + " ST,ST({})", [STI()],
            (lambda o: lambda pc, v: WAIT + bytes([0xD8, 0xC0 | o << 3 | v[0]]))(o0))
        # ST(0) is another name of ST: `<op> ST(0),ST` and `<op> ST,ST(0)` are the same operation with two
        # equal-length encodings (d bit) -> i = 0 is not generated for the non-popping d=1 form
        add(m + " ST(i),ST", m + " ST({}),ST", [STI(holes=[0])],
            (lambda o: lambda pc, v: WAIT + bytes([0xDC, 0xC0 | o << 3 | v[0]]))(o1))
        add(m + "P ST(i),ST", m + "P ST({}),ST", [STI()],
            (lambda o: lambda pc, v: WAIT + bytes([0xDE, 0xC0 | o << 3 | v[0]]))(o1))
        # classical stack form: no operands = pop form with ST(1) as destination
        add(m, m, [], (lambda o: lambda pc, v: WAIT + bytes([0xDE, 0xC0 | o << 3 | 1]))(o1))

    # ------------------------------------------------------------ memory operands
    MEM = [
        # data transfer
        ("FLD", "DWORD", 0xD9, 0), ("FLD", "QWORD", 0xDD, 0), ("FLD", "TBYTE", 0xDB, 5),
        ("FST", "DWORD", 0xD9, 2), ("FST", "QWORD", 0xDD, 2),
        ("FSTP", "DWORD", 0xD9, 3), ("FSTP", "QWORD", 0xDD, 3), ("FSTP", "TBYTE", 0xDB, 7),
        ("FILD", "WORD", 0xDF, 0), ("FILD", "DWORD", 0xDB, 0), ("FILD", "QWORD", 0xDF, 5),
        ("FIST", "WORD", 0xDF, 2), ("FIST", "DWORD", 0xDB, 2),
        ("FISTP", "WORD", 0xDF, 3), ("FISTP", "DWORD", 0xDB, 3), ("FISTP", "QWORD", 0xDF, 7),
        ("FBLD", "TBYTE", 0xDF, 4), ("FBSTP", "TBYTE", 0xDF, 6),
        # processor control
        ("FLDCW", None, 0xD9, 5), ("FLDCW", "WORD", 0xD9, 5),
        ("FSTCW", None, 0xD9, 7), ("FSTCW", "WORD", 0xD9, 7),
        ("FSTSW", None, 0xDD, 7), ("FSTSW", "WORD", 0xDD, 7),
        ("FLDENV", None, 0xD9, 4), ("FSTENV", None, 0xD9, 6), ("FRSTOR", None, 0xDD, 4), ("FSAVE", None, 0xDD, 6),
    ]
    for o, m in enumerate(("FADD", "FMUL", "FCOM", "FCOMP", "FSUB", "FSUBR", "FDIV", "FDIVR")):
        MEM += [(m, "DWORD", 0xD8, o), (m, "QWORD", 0xDC, o)]
        MEM += [("FI" + m[1:], "WORD", 0xDE, o), ("FI" + m[1:], "DWORD", 0xDA, o)]
    NOWAIT = {"FSTCW": "FNSTCW", "FSTSW": "FNSTSW", "FSTENV": "FNSTENV", "FSAVE": "FNSAVE"}
    for m, size, esc, reg in MEM:
        for tag, txt, mops, mf in mems(False, True):
            opnd = ("%s PTR %s" % (size, txt)) if size else txt
            nm = "%s %s%s" % (m, (size.lower() + " ") if size else "", tag)

            def enc(esc, reg, mf, wait):
                def f(pc, v):
                    pre, mod, rm, tail = mf(v)
                    # WAIT, then the segment override prefix of the ESCAPE instruction, then ESC + mod/r-m
                    return wait + rmbytes(esc, reg, (pre, mod, rm, tail))
                return f
            add(nm, "%s %s" % (m, opnd), mops, enc(esc, reg, mf, WAIT))
            if m in NOWAIT:
                add("FN" + nm[1:], "%s %s" % (NOWAIT[m], opnd), mops, enc(esc, reg, mf, b""))
    return F


ISAS = [
    Isa("8087", "8086", build(), "intel", pcsym="$", slot=16, base=0x1000, offsets=[0, 1, 9],
        prologue=["\tfpu\ton"]),
]
