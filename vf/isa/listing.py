"""Minimal reader of asl's listing lines: line number, address, code field (hex tokens)."""
import re

LINE_RE = re.compile(r"^\s*(?:\(\d+\))?\s*(\d+)/\s*([0-9A-Fa-f]+) :(.*)$")
HEXTOK = re.compile(r"^[0-9A-F]+$")


def parse(text, src_lines):
    """-> {line number: (address, [hex tokens of the code field])}; src_lines = the main file's lines
    (1-based index i -> src_lines[i-1]); only lines of the main file are returned."""
    out = {}
    last = None
    for ln in text.split("\n"):
        m = LINE_RE.match(ln)
        if not m:
            # continuation line of a long code field: only hex tokens, indented
            if last is not None and ln.startswith(" " * 19):
                toks = ln.split()
                if toks and all(HEXTOK.match(t) for t in toks):
                    out[last][1].extend(toks)
                    continue
            last = None
            continue
        if ln.lstrip().startswith("("):
            last = None
            continue        # include file line
        no = int(m.group(1))
        rest = m.group(3)
        src = src_lines[no - 1].rstrip("\n") if 0 < no <= len(src_lines) else None
        code = None
        if src is not None:
            if src == "":
                code = rest
            elif rest.endswith(src):
                code = rest[:len(rest) - len(src)]
            else:
                e = src.expandtabs(8)
                if rest.endswith(e):
                    code = rest[:len(rest) - len(e)]
        if code is None:
            code = rest[:21]
        toks = [t for t in code.split() if HEXTOK.match(t)]
        if no not in out:
            out[no] = (int(m.group(2), 16), toks)
        last = no
    return out


def tokens_to_bytes(toks, gran):
    """code-field tokens -> bytes; tokens are bytes (2 digits) or words (4 digits, little endian in memory)"""
    b = bytearray()
    for t in toks:
        if len(t) == 2:
            b.append(int(t, 16))
        elif len(t) == 4:
            v = int(t, 16)
            b += bytes([v & 0xff, v >> 8])
        elif len(t) == 8:
            v = int(t, 16)
            b += v.to_bytes(4, "little")
        else:
            raise ValueError("odd token " + t)
    return bytes(b)
