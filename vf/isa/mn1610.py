"""Panafacom MN1610 reference encoder (AS CPU names MN1610, MN1613 and the second code generator
MN1610ALT, MN1613ALT; the MN1613 executes the MN1610 instruction set unchanged).

Source of truth: Panafacom / Matsushita MN1610 (L-16A) 16-bit microprocessor user's manual, chapter
"instruction set": the five instruction formats and the instruction code table.  Written from the
manufacturer's definition, not from codemn1610.c.

Registers (3-bit field): R0 0, R1 1, R2 2, R3 = X0 3, R4 = X1 4, SP 5, STR 6; the value 7 in a register
field selects another instruction (B / BAL in the memory reference format), so it names no register.

  memory reference   | OP 2 | MM 3 | Rd 3 | D 8 |
      OP: 11 L, 10 ST; with Rd = 111: 11 B, 10 BAL; with Rd = 110: 11 IMS, 10 DMS
      MM: 000 D         direct (page 0)             EA = D               D = 0..255
          001 D(IC)     relative                    EA = IC + D          D = -128..127
          010 (D)       indirect                    EA = (D)
          011 (D(IC))   relative indirect           EA = (IC + D)
          100 D(X0)     indexed                     EA = X0 + D          D = 0..255
          101 D(X1)                                 EA = X1 + D
          110 (D)(X0)   indirect indexed            EA = (D) + X0
          111 (D)(X1)                               EA = (D) + X1
  register           | 01 | op 3 | Rd 3 | SK 4 | f | Rs 3 |
      0101 1 ... 1 A    0101 1 ... 0 S    0101 0 ... 1 C    0101 0 ... 0 CB
      0110 1 ... 1 AND  0110 1 ... 0 LAD  0110 0 ... 1 OR   0110 0 ... 0 EOR
      0111 1 ... 1 MV   0111 1 ... 0 MVB  0111 0 ... 1 BSWP 0111 0 ... 0 DSWP
  immediate 4 bit    | 0100 1 AI | 0100 0 SI | 0011 1 SBIT | 0011 0 RBIT | 0010 1 TBIT |  Rd 3 | SK 4 | n 4 |
  shift              | 0010 0 | Rd 3 | SK 4 | 1 d | EE |   d = 1 SL, 0 SR;  EE: 00 -, 01 RE, 10 SE, 11 CE
  immediate 8 bit    | 0000 1 MVI | 0001 0 WT | 0001 1 RD | Rd 3 | imm / device address 8 |
  control            0010 0000 0000 0000 H, 0010 0 Rd 0000 0001 PUSH, ... 0010 POP, 2003 RET,
                     0010 0000 0000 01 nn LPSW n (n = 0..3)
  SK (skip condition): 0 none, 1 SKP, 2 M, 3 PZ, 4 Z (E), 5 NZ (NE), 6 MZ, 7 P, 8 EZ, 9 ENZ, A OZ, B ONZ,
                     C LMZ, D LP, E LPZ, F LM

AS syntax (tests/t_mn1610, syntax only): `L Rd,ea`, `B ea`, `A Rd,Rs[,sk]`, `SL Rd[,ee][,sk]`,
`SBIT Rd,n[,sk]`, `AI Rd,n[,sk]`, `MVI Rd,imm`, `RD Rd,dev`, `PUSH Rd`, `LPSW n`; integer notation IBM
(X'1F').  The shared check writes ORG addresses and EQU values through common.lit(), which knows
Motorola / Intel / C only, therefore the programs start with RELAXED ON (doc: all notations may be
used) and those places use 0x.. ; instruction operands are rendered as X'..' by this module.

Mnemonic of the output instruction: Panafacom's mnemonic is WT (write; the MN1613's register form is
WTR).  AS's first code generator (CPU MN1610 / MN1613) only knew the spelling WR, the second one
(MN1610ALT / MN1613ALT) knows both - see proposed/C14/mn1610-wt-mnemonic.md; the table uses WT.

Excluded by construction / not generated
  * a plain address operand above 255 (AS then tries the relative mode by itself; this selection is not
    part of the manufacturer's notation): the direct forms are generated with D = 0..255; larger values
    are generated as rejects only where the relative mode cannot reach them either (|addr - IC| > 128)
  * the aliases NOP (MV R0,R0) and CLR Rd (EOR Rd,Rd), the spelling WR
  * the MN1613 extensions (LD/STD/LR/STR with segment registers, the ...I/...R arithmetic, BD/BL/BR, the
    floating point and block instructions): the author does not know Panafacom's MN1613 code table
    independently of the comments in the golden test, so no trustworthy reference can be written
"""
import re
from .common import Form, Int, Enum, Isa
from .m68k import BigEndianWords      # listing reader for big-endian word listings (golden check only)

REGN = ["R0", "R1", "R2", "R3", "R4", "SP", "STR", "X0", "X1"]
REGC = [0, 1, 2, 3, 4, 5, 6, 3, 4]

SKIPS = [("SKP", 1), ("M", 2), ("PZ", 3), ("Z", 4), ("E", 4), ("NZ", 5), ("NE", 5), ("MZ", 6), ("P", 7), ("EZ", 8),
         ("ENZ", 9), ("OZ", 10), ("ONZ", 11), ("LMZ", 12), ("LP", 13), ("LPZ", 14), ("LM", 15)]
EMODE = [("RE", 1), ("SE", 2), ("CE", 3)]

REGOPS = {"A": 0x5808, "S": 0x5800, "C": 0x5008, "CB": 0x5000, "AND": 0x6808, "LAD": 0x6800, "OR": 0x6008,
          "EOR": 0x6000, "MV": 0x7808, "MVB": 0x7800, "BSWP": 0x7008, "DSWP": 0x7000}
IMM4 = {"AI": 0x4800, "SI": 0x4000, "SBIT": 0x3800, "RBIT": 0x3000, "TBIT": 0x2800}
SHIFT = {"SL": 0x200C, "SR": 0x2008}
IMM8 = {"MVI": 0x0800, "WT": 0x1000, "RD": 0x1800}
MEMR = {"L": 0xC000, "ST": 0x8000}                                  # with a register
MEMN = {"B": 0xC700, "BAL": 0x8700, "IMS": 0xC600, "DMS": 0x8600}   # register field fixed


def be(*ws):
    return b"".join(bytes([(w >> 8) & 0xff, w & 0xff]) for w in ws)


def ibm(v, hexa):
    if v < 0:
        return "-" + ibm(-v, hexa)
    return "X'%X'" % v if hexa else str(v)


class IntI(Int):
    """integer rendered in the target's default (IBM) hexadecimal notation"""

    def render(self, v, syntax, hexa):
        return ibm(v, hexa)


class Direct(IntI):
    """page-0 address 0..255.  A larger value cannot be held by the direct mode; AS then tries the
    relative mode, so it has to be rejected only when it is farther than 128 words from the instruction
    (values the relative mode could reach are not generated)."""

    def __init__(self, wide=False):
        IntI.__init__(self, 0, 255)
        self.wide = wide

    def classify(self, v, pc=0, vals=None):
        if v > 255 and abs(v - pc) <= 130:
            return "excl"
        if self.wide and v > 0xffff:
            # MN1613: addresses beyond 64K are reduced to a 16-bit offset by the segment window logic (ASSUME,
            # doc/pseudo-instructions.md "MN1613"; outside the window AS only warns): not generated
            return "excl"
        return IntI.classify(self, v, pc, vals)


class Reg(Enum):
    """register name; `bad` names exist in the processor but cannot be held by this instruction's field
    (the bit pattern is a different instruction): they must be rejected"""

    def __init__(self, bad=()):
        Enum.__init__(self, REGN)
        self.bad = [i for i, n in enumerate(REGN) if n in bad]
        self.good = [i for i in range(len(REGN)) if i not in self.bad]

    def classify(self, v, pc=0, vals=None):
        if v in self.bad:
            return "rej"
        return Enum.classify(self, v, pc, vals)

    def boundary_ok(self):
        return list(self.good)

    def boundary_rej(self):
        return list(self.bad)

    def opclass(self, v):
        return "illegal-" + self.names[v] if v in self.bad else None

    def draw_ok(self, d):
        return d.choice(self.good)

    def draw_rej(self, d):
        return d.choice(self.bad) if self.bad else None


def modes(wide):
    """addressing modes: (name, text, operand kind, MM)"""
    direct = lambda: Direct(wide)
    return [("D", "{}", direct, 0), ("D(IC)", "{}(IC)", lambda: IntI(-128, 127), 1),
            ("(D)", "({})", direct, 2), ("(D(IC))", "({}(IC))", lambda: IntI(-128, 127), 3),
            ("D(X0)", "{}(X0)", lambda: IntI(0, 255), 4), ("D(X1)", "{}(X1)", lambda: IntI(0, 255), 5),
            ("(D)(X0)", "({})(X0)", lambda: IntI(0, 255), 6), ("(D)(X1)", "({})(X1)", lambda: IntI(0, 255), 7)]


def build(wide=False):
    F = []

    def add(name, fmt, ops, enc):
        F.append(Form(name, fmt, ops, enc))

    add("H", "H", [], lambda pc, v: be(0x2000))
    add("RET", "RET", [], lambda pc, v: be(0x2003))

    # ---- memory reference
    for mname, text, kind, mm in modes(wide):
        for m, oc in MEMR.items():
            # Rd = 6 / 7 are IMS, DMS / B, BAL: STR cannot be loaded or stored
            add("%s Rd,%s" % (m, mname), "%s {0},%s" % (m, text.format("{1}")), [Reg(bad=["STR"]), kind()],
                lambda pc, v, oc=oc, mm=mm: be(oc | mm << 11 | REGC[v[0]] << 8 | (v[1] & 0xff)))
        for m, oc in MEMN.items():
            add("%s %s" % (m, mname), "%s %s" % (m, text.format("{0}")), [kind()],
                lambda pc, v, oc=oc, mm=mm: be(oc | mm << 11 | (v[0] & 0xff)))

    # ---- register - register with skip condition
    for m, oc in REGOPS.items():
        add(m + " Rd,Rs", m + " {0},{1}", [Reg(), Reg()],
            lambda pc, v, oc=oc: be(oc | REGC[v[0]] << 8 | REGC[v[1]]))
        add(m + " Rd,Rs,sk", m + " {0},{1},{2}", [Reg(), Reg(), Enum([s[0] for s in SKIPS])],
            lambda pc, v, oc=oc: be(oc | REGC[v[0]] << 8 | SKIPS[v[2]][1] << 4 | REGC[v[1]]))

    # ---- 4-bit immediate / bit number with skip condition
    for m, oc in IMM4.items():
        add(m + " Rd,n", m + " {0},{1}", [Reg(), IntI(0, 15)],
            lambda pc, v, oc=oc: be(oc | REGC[v[0]] << 8 | v[1]))
        add(m + " Rd,n,sk", m + " {0},{1},{2}", [Reg(), IntI(0, 15), Enum([s[0] for s in SKIPS])],
            lambda pc, v, oc=oc: be(oc | REGC[v[0]] << 8 | SKIPS[v[2]][1] << 4 | v[1]))

    # ---- shifts with E-register mode and skip condition
    for m, oc in SHIFT.items():
        add(m + " Rd", m + " {0}", [Reg()], lambda pc, v, oc=oc: be(oc | REGC[v[0]] << 8))
        add(m + " Rd,ee", m + " {0},{1}", [Reg(), Enum([e[0] for e in EMODE])],
            lambda pc, v, oc=oc: be(oc | REGC[v[0]] << 8 | EMODE[v[1]][1]))
        add(m + " Rd,sk", m + " {0},{1}", [Reg(), Enum([s[0] for s in SKIPS])],
            lambda pc, v, oc=oc: be(oc | REGC[v[0]] << 8 | SKIPS[v[1]][1] << 4))
        add(m + " Rd,ee,sk", m + " {0},{1},{2}", [Reg(), Enum([e[0] for e in EMODE]), Enum([s[0] for s in SKIPS])],
            lambda pc, v, oc=oc: be(oc | REGC[v[0]] << 8 | SKIPS[v[2]][1] << 4 | EMODE[v[1]][1]))

    # ---- 8-bit immediate, input / output
    add("MVI Rd,imm", "MVI {0},{1}", [Reg(), IntI(-128, 255)],
        lambda pc, v: be(0x0800 | REGC[v[0]] << 8 | (v[1] & 0xff)))
    for m in ("WT", "RD"):
        # device address: unsigned 8 bit (a negative one is not generated; AS reads -1 as X'FF')
        add(m + " Rd,dev", m + " {0},{1}", [Reg(), IntI(0, 255, rej_lo=False)],
            lambda pc, v, oc=IMM8[m]: be(oc | REGC[v[0]] << 8 | v[1]))

    # ---- control
    add("PUSH Rd", "PUSH {0}", [Reg()], lambda pc, v: be(0x2001 | REGC[v[0]] << 8))
    add("POP Rd", "POP {0}", [Reg()], lambda pc, v: be(0x2002 | REGC[v[0]] << 8))
    add("LPSW n", "LPSW {0}", [IntI(0, 3)], lambda pc, v: be(0x2004 | v[0]))
    return F


FORMS = build()
FORMS13 = build(wide=True)

GRAN = BigEndianWords(2)


def _isa(cpu):
    return Isa(cpu, cpu, FORMS13 if "1613" in cpu else FORMS, "c", gran=GRAN, slot=4, base=0x1000,
               offsets=[0, 1, 3], prologue=["\trelaxed\ton"])


# The golden test keeps its instructions in two include files, which the shared cross-check
# (vf.isa.selftest) does not read; `python3-vt -m vf.isa.mn1610 [-v]` runs the same comparison on the
# test source with the include files spliced in (the image still has to equal t_mn1610.ori).
ISAS = [_isa("MN1610"), _isa("MN1613"), _isa("MN1610ALT"), _isa("MN1613ALT")]

GOLDEN = [("t_mn1610", {"mn1613": True})]
# lines of the MN1610 part that this table leaves out (aliases, AS's spelling of WT)
IGNORE = ["nop", "clr r1", "wr r1,100"]


def golden_check(verbose=False):
    from . import selftest
    from .. import corpus
    t = dict(corpus.load("t_mn1610"))
    out = []
    for line in t["src"].decode("latin-1").split("\n"):
        m = re.match(r'^\s+INCLUDE\s+"([^"]+)"', line)
        if m and m.group(1) in t["extra"]:
            out += t["extra"][m.group(1)].decode("latin-1").rstrip("\n").split("\n")
        else:
            out.append(line)
    t["src"] = "\n".join(out).encode("latin-1")
    saved = corpus._cache.get("t_mn1610")
    corpus._cache["t_mn1610"] = t
    isa = Isa("MN1613", "MN1613", FORMS, "c", gran=GRAN, golden=GOLDEN, golden_ignore=IGNORE)
    try:
        return selftest.check_isa(isa, verbose)
    finally:
        if saved is None:
            corpus._cache.pop("t_mn1610", None)
        else:
            corpus._cache["t_mn1610"] = saved


if __name__ == "__main__":
    import sys
    from .. import build as _build
    _build.build("plain")
    r = golden_check("-v" in sys.argv)
    print("MN1610   golden t_mn1610: %d instruction lines, %d matched (%d/%d forms), %d unmodelled, %d MISMATCHED"
          % (r["lines"], r["matched"], len(r["forms_seen"]), len(FORMS), r["unmodelled"], len(r["mismatched"])))
    for m in r["mismatched"][:10]:
        print("    " + m)
    sys.exit(1 if r["mismatched"] else 0)
