"""Intel 8008 reference encoder - Intel "8008 8-Bit Parallel Central Processor Unit / MCS-8 User's
Manual" (rev. 4, Nov. 1973), instruction set chapter, both with the original mnemonics (CPU 8008)
and with the 8080-style mnemonics Intel introduced later (CPU 8008NEW).  Written from Intel's
definition, not from code8008.c.

  register codes   A=000 B=001 C=010 D=011 E=100 H=101 L=110 M=111 (memory through HL)
  Lr1r2 11 DDD SSS   LrI 00 DDD 110   INr 00 DDD 000   DCr 00 DDD 001  (INr/DCr: neither A nor M)
  ALU r 10 PPP SSS   ALU I 00 PPP 100   rotate 00 0RR 010
  JMP 01 XXX 100  JFc 01 0CC 000  JTc 01 1CC 000   CAL 01 XXX 110  CFc 01 0CC 010  CTc 01 1CC 010
  RET 00 XXX 111  RFc 00 0CC 011  RTc 00 1CC 011   RST 00 AAA 101
  INP 01 00M MM1 (ports 0..7)   OUT 01 RRM MM1 (RR != 00: ports 8..31)
  HLT 00 000 00X (and 11 111 111, which therefore is not "LMM")
  addresses: low byte, then  XX hhhhhh  (14 bits; X = don't care)

Bits Intel marks X (don't care) are masked in the comparison.  RST takes either the 3-bit number AAA
or the restart address AAA000b (both are Intel notations; they agree for 0, 8 as a number does not
exist and 8 as an address is AAA=1, so the two forms are generated with disjoint value sets).
Not generated: the LXI convenience macro of AS, Z80SYNTAX.
"""
from .common import Form, Int, Isa

R = ["A", "B", "C", "D", "E", "H", "L", "M"]
ALU_OLD = ["AD", "AC", "SU", "SB", "ND", "XR", "OR", "CP"]
ALU_NEW = ["ADD", "ADC", "SUB", "SBB", "ANA", "XRA", "ORA", "CMP"]
ALUI_OLD = ["ADI", "ACI", "SUI", "SBI", "NDI", "XRI", "ORI", "CPI"]
ALUI_NEW = ["ADI", "ACI", "SUI", "SBI", "ANI", "XRI", "ORI", "CPI"]
CC = ["C", "Z", "S", "P"]                       # carry, zero, sign, parity
CC_NEW_F = ["NC", "NZ", "P", "PO"]              # condition false
CC_NEW_T = ["C", "Z", "M", "PE"]                # condition true

D8 = lambda: Int(-128, 255)
A14 = lambda: Int(0, 16383, rej_lo=False)


def b1(op):
    return lambda pc, v: bytes([op])


def b2(op):
    return lambda pc, v: bytes([op, v[0] & 0xff])


def b3(op):
    return lambda pc, v: bytes([op, v[0] & 0xff, (v[0] >> 8) & 0x3f])


def build(new):
    F = []

    def add(name, fmt, ops, enc, dc=None):
        F.append(Form(name, fmt, ops, enc, dontcare=dc))

    add("HLT", "HLT", [], b1(0x00), bytes([0x01]))
    for d, dn in enumerate(R):
        for s, sn in enumerate(R):
            if d == 7 and s == 7:
                continue                # FF is HLT
            t = "MOV %s,%s" % (dn, sn) if new else "L%s%s" % (dn, sn)
            add(t, t, [], b1(0xC0 | d << 3 | s))
        t = ("MVI %s,d8" % dn, "MVI %s,{0}" % dn) if new else ("L%sI d8" % dn, "L%sI {0}" % dn)
        add(t[0], t[1], [D8()], b2(0x06 | d << 3))
        if 0 < d < 7:
            for m, op in ((("INR ", 0x00), ("DCR ", 0x01)) if new else (("IN", 0x00), ("DC", 0x01))):
                add(m + dn, m + dn, [], b1(op | d << 3))
    for p in range(8):
        for s, sn in enumerate(R):
            t = "%s %s" % (ALU_NEW[p], sn) if new else ALU_OLD[p] + sn
            add(t, t, [], b1(0x80 | p << 3 | s))
        m = (ALUI_NEW if new else ALUI_OLD)[p]
        add(m + " d8", m + " {0}", [D8()], b2(0x04 | p << 3))
    for i, m in enumerate(["RLC", "RRC", "RAL", "RAR"]):
        add(m, m, [], b1(0x02 | i << 3))
    adc = bytes([0, 0, 0xC0])          # XX of the high address byte
    add("JMP a14", "JMP {0}", [A14()], b3(0x44), bytes([0x38, 0, 0xC0]))
    cal = "CALL" if new else "CAL"
    add(cal + " a14", cal + " {0}", [A14()], b3(0x46), bytes([0x38, 0, 0xC0]))
    add("RET", "RET", [], b1(0x07), bytes([0x38]))
    for c in range(4):
        if new:
            names = [(CC_NEW_F[c], 0), (CC_NEW_T[c], 1)]
            for cn, t in names:
                add("J%s a14" % cn, "J%s {0}" % cn, [A14()], b3(0x40 | t << 5 | c << 3), adc)
                add("C%s a14" % cn, "C%s {0}" % cn, [A14()], b3(0x42 | t << 5 | c << 3), adc)
                add("R" + cn, "R" + cn, [], b1(0x03 | t << 5 | c << 3))
        else:
            for pre, t in (("F", 0), ("T", 1)):
                cn = pre + CC[c]
                add("J%s a14" % cn, "J%s {0}" % cn, [A14()], b3(0x40 | t << 5 | c << 3), adc)
                add("C%s a14" % cn, "C%s {0}" % cn, [A14()], b3(0x42 | t << 5 | c << 3), adc)
                add("R" + cn, "R" + cn, [], b1(0x03 | t << 5 | c << 3))
            # AS also spells the "true" conditions without the T (golden test t_8008)
            cn = CC[c]
            add("J%s a14" % cn, "J%s {0}" % cn, [A14()], b3(0x60 | c << 3), adc)
            add("C%s a14" % cn, "C%s {0}" % cn, [A14()], b3(0x62 | c << 3), adc)
            add("R" + cn, "R" + cn, [], b1(0x23 | c << 3))
    add("RST n", "RST {0}", [Int(0, 7, rej_hi=False)], lambda pc, v: bytes([0x05 | v[0] << 3]))
    add("RST addr", "RST {0}", [Int(8, 56, step=8, rej_lo=False)], lambda pc, v: bytes([0x05 | v[0]]))
    inp = "IN" if new else "INP"
    add(inp + " p", inp + " {0}", [Int(0, 7)], lambda pc, v: bytes([0x41 | v[0] << 1]))
    add("OUT p", "OUT {0}", [Int(8, 31)], lambda pc, v: bytes([0x41 | v[0] << 1]))
    add("NOP", "NOP", [], b1(0xC0))
    return F


ISAS = [
    Isa("8008", "8008", build(False), "intel", pcsym="$", slot=8, base=0x1000, maxaddr=0x3fff, offsets=[0, 1, 5],
        golden=[("t_8008", {"8008": True})]),
    Isa("8008NEW", "8008NEW", build(True), "intel", pcsym="$", slot=8, base=0x1000, maxaddr=0x3fff,
        offsets=[0, 1, 5], golden=[("t_8008", {"8008new": True})]),
]
