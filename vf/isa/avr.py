"""Atmel AVR reference encoder for the AT90S8515 (classic core) - AVR Instruction Set manual
(doc0856) restricted to the instructions the AT90S8515 data sheet lists (no MUL, JMP, CALL, MOVW,
extended LPM/ELPM, SPM ...).  Written from Atmel's definition, not from codeavr.c.

CODE addresses are word addresses; relative branches count words from PC+1.
"""
from .common import Form, Int, Enum, Rel, Isa, sx, words

REG = ["R%d" % i for i in range(32)]
HREG = ["R%d" % i for i in range(16, 32)]
WREG = ["R24", "R26", "R28", "R30"]

K8 = lambda: Int(-128, 255)
BIT = lambda: Int(0, 7)


def w1(f):
    return lambda pc, v: words(f(v))


def build():
    F = []

    def add(name, fmt, ops, enc, rel=None):
        F.append(Form(name, fmt, ops, enc, rel))

    # two-register arithmetic / logic:  oooo oord dddd rrrr
    for m, op in (("ADD", 0x0C00), ("ADC", 0x1C00), ("SUB", 0x1800), ("SBC", 0x0800), ("AND", 0x2000),
                  ("OR", 0x2800), ("EOR", 0x2400), ("CPSE", 0x1000), ("CP", 0x1400), ("CPC", 0x0400),
                  ("MOV", 0x2C00)):
        add(m + " Rd,Rr", m + " {0},{1}", [Enum(REG), Enum(REG)],
            (lambda o: w1(lambda v: o | (v[1] & 0x10) << 5 | v[0] << 4 | v[1] & 0x0f))(op))
    # one register written into both fields
    for m, op in (("TST", 0x2000), ("CLR", 0x2400), ("LSL", 0x0C00), ("ROL", 0x1C00)):
        add(m + " Rd", m + " {0}", [Enum(REG)],
            (lambda o: w1(lambda v: o | (v[0] & 0x10) << 5 | v[0] << 4 | v[0] & 0x0f))(op))
    # register (16..31) with 8 bit constant:  oooo KKKK dddd KKKK
    for m, op in (("SUBI", 0x5000), ("SBCI", 0x4000), ("ANDI", 0x7000), ("ORI", 0x6000), ("SBR", 0x6000),
                  ("CPI", 0x3000), ("LDI", 0xE000)):
        add(m + " Rd,K", m + " {0},{1}", [Enum(HREG), K8()],
            (lambda o: w1(lambda v: o | (v[1] & 0xf0) << 4 | v[0] << 4 | v[1] & 0x0f))(op))
    add("CBR Rd,K", "CBR {0},{1}", [Enum(HREG), K8()],
        w1(lambda v: 0x7000 | (~v[1] & 0xf0) << 4 | v[0] << 4 | ~v[1] & 0x0f))
    add("SER Rd", "SER {0}", [Enum(HREG)], w1(lambda v: 0xEF0F | v[0] << 4))
    for m, op in (("ADIW", 0x9600), ("SBIW", 0x9700)):
        add(m + " Rd,K", m + " {0},{1}", [Enum(WREG), Int(0, 63)],
            (lambda o: w1(lambda v: o | (v[1] & 0x30) << 2 | v[0] << 4 | v[1] & 0x0f))(op))
    # single register:  1001 010d dddd oooo
    for m, op in (("COM", 0x9400), ("NEG", 0x9401), ("SWAP", 0x9402), ("INC", 0x9403), ("ASR", 0x9405),
                  ("LSR", 0x9406), ("ROR", 0x9407), ("DEC", 0x940A), ("PUSH", 0x920F), ("POP", 0x900F)):
        add(m + " Rd", m + " {0}", [Enum(REG)], (lambda o: w1(lambda v: o | v[0] << 4))(op))
    # loads and stores
    for ptr, lo in (("X", {"": 0x900C, "+": 0x900D, "-": 0x900E}), ("Y", {"": 0x8008, "+": 0x9009, "-": 0x900A}),
                    ("Z", {"": 0x8000, "+": 0x9001, "-": 0x9002})):
        for k, op in lo.items():
            txt = {"": ptr, "+": ptr + "+", "-": "-" + ptr}[k]
            add("LD Rd," + txt, "LD {0}," + txt, [Enum(REG)], (lambda o: w1(lambda v: o | v[0] << 4))(op))
            add("ST %s,Rr" % txt, "ST " + txt + ",{0}", [Enum(REG)], (lambda o: w1(lambda v: o | 0x0200 | v[0] << 4))(op))
    for ptr, sel in (("Y", 0x0008), ("Z", 0x0000)):
        def q(v):
            return (v & 0x20) << 8 | (v & 0x18) << 7 | v & 0x07
        add("LDD Rd,%s+q" % ptr, "LDD {0},%s+{1}" % ptr, [Enum(REG), Int(0, 63, rej_lo=False)],
            (lambda s: w1(lambda v: 0x8000 | s | v[0] << 4 | q(v[1])))(sel))
        add("STD %s+q,Rr" % ptr, "STD %s+{0},{1}" % ptr, [Int(0, 63, rej_lo=False), Enum(REG)],
            (lambda s: w1(lambda v: 0x8200 | s | v[1] << 4 | q(v[0])))(sel))
    add("LDS Rd,k", "LDS {0},{1}", [Enum(REG), Int(0, 65535, rej_lo=False)],
        lambda pc, v: words(0x9000 | v[0] << 4, v[1]))
    add("STS k,Rr", "STS {0},{1}", [Int(0, 65535, rej_lo=False), Enum(REG)],
        lambda pc, v: words(0x9200 | v[1] << 4, v[0]))
    # I/O
    add("IN Rd,A", "IN {0},{1}", [Enum(REG), Int(0, 63, rej_lo=False)],
        w1(lambda v: 0xB000 | (v[1] & 0x30) << 5 | v[0] << 4 | v[1] & 0x0f))
    add("OUT A,Rr", "OUT {0},{1}", [Int(0, 63, rej_lo=False), Enum(REG)],
        w1(lambda v: 0xB800 | (v[0] & 0x30) << 5 | v[1] << 4 | v[0] & 0x0f))
    for m, op in (("CBI", 0x9800), ("SBIC", 0x9900), ("SBI", 0x9A00), ("SBIS", 0x9B00)):
        add(m + " A,b", m + " {0},{1}", [Int(0, 31, rej_lo=False), BIT()],
            (lambda o: w1(lambda v: o | v[0] << 3 | v[1]))(op))
    # bit and skip instructions on registers
    for m, op in (("SBRC", 0xFC00), ("SBRS", 0xFE00), ("BST", 0xFA00), ("BLD", 0xF800)):
        add(m + " Rr,b", m + " {0},{1}", [Enum(REG), BIT()], (lambda o: w1(lambda v: o | v[0] << 4 | v[1]))(op))
    add("BSET s", "BSET {0}", [BIT()], w1(lambda v: 0x9408 | v[0] << 4))
    add("BCLR s", "BCLR {0}", [BIT()], w1(lambda v: 0x9488 | v[0] << 4))
    for s, (se, cl) in enumerate((("SEC", "CLC"), ("SEZ", "CLZ"), ("SEN", "CLN"), ("SEV", "CLV"), ("SES", "CLS"),
                                  ("SEH", "CLH"), ("SET", "CLT"), ("SEI", "CLI"))):
        add(se, se, [], (lambda o: w1(lambda v: o))(0x9408 | s << 4))
        add(cl, cl, [], (lambda o: w1(lambda v: o))(0x9488 | s << 4))
    # branches
    brrel = (None, lambda b: sx((b[0] | b[1] << 8) >> 3, 7))
    add("BRBS s,k", "BRBS {0},{1}", [BIT(), Rel(-64, 63, 1)], w1(lambda v: 0xF000 | (v[1] & 0x7f) << 3 | v[0]),
        (1, brrel[1]))
    add("BRBC s,k", "BRBC {0},{1}", [BIT(), Rel(-64, 63, 1)], w1(lambda v: 0xF400 | (v[1] & 0x7f) << 3 | v[0]),
        (1, brrel[1]))
    for m, setf, s in (("BRCS", 1, 0), ("BRLO", 1, 0), ("BREQ", 1, 1), ("BRMI", 1, 2), ("BRVS", 1, 3), ("BRLT", 1, 4),
                       ("BRHS", 1, 5), ("BRTS", 1, 6), ("BRIE", 1, 7), ("BRCC", 0, 0), ("BRSH", 0, 0), ("BRNE", 0, 1),
                       ("BRPL", 0, 2), ("BRVC", 0, 3), ("BRGE", 0, 4), ("BRHC", 0, 5), ("BRTC", 0, 6), ("BRID", 0, 7)):
        add(m + " k", m + " {0}", [Rel(-64, 63, 1)],
            (lambda o: w1(lambda v: o | (v[0] & 0x7f) << 3))((0xF000 if setf else 0xF400) | s), (0, brrel[1]))
    for m, op in (("RJMP", 0xC000), ("RCALL", 0xD000)):
        add(m + " k", m + " {0}", [Rel(-2048, 2047, 1)], (lambda o: w1(lambda v: o | v[0] & 0xfff))(op),
            (0, lambda b: sx(b[0] | b[1] << 8, 12)))
    for m, op in (("IJMP", 0x9409), ("ICALL", 0x9509), ("RET", 0x9508), ("RETI", 0x9518), ("LPM", 0x95C8),
                  ("NOP", 0x0000), ("SLEEP", 0x9588), ("WDR", 0x95A8)):
        add(m, m, [], (lambda o: w1(lambda v: o))(op))
    return F


# slots straddle the middle of the 4K-word program memory so that both RJMP limits are reachable
ISAS = [Isa("AVR", "AT90S8515", build(), "c", pcsym="*", gran=2, slot=2, base=0x7FF - 250, maxaddr=0xfff, straddle=True,
            golden=[("t_avr", {"at90s8515": True})])]
