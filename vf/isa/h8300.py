"""Hitachi H8/300 CPU reference encoder.

Source of truth: Hitachi H8/300 Series Programming Manual - section 2.2 (the instruction pages with their
"instruction format" rows), table "operation code map" and the table of instruction formats of the bit
manipulation group (prefix word 7C/7E for the bit-test class, 7D/7F for the bit-modify class, followed by
the register-direct operation word with a zero register nibble).  Written from that definition, not from
codeh8_3.c.

Register fields: 8-bit registers R0H..R7H = 0..7, R0L..R7L = 8..15 (4-bit field); 16-bit registers R0..R7
(3-bit field, R7 = SP).  Memory is big endian, every instruction is one or two 16-bit words at an even
address.

Operand spelling accepted by AS (tests/t_h8_3 and trial assembly, syntax only): Hitachi's, with Motorola
integer literals:  #xx  Rn  @Rn  @(d,Rn) / @(d:16,Rn)  @Rn+  @-Rn  @aa / @aa:8 / @aa:16  @@aa, CCR.
The size suffix (.B/.W) may be omitted when a register operand fixes the size; both spellings are generated.

Conventions / not generated:
  * @aa:8 is the address range H'FF00..H'FFFF (the CPU supplies H'FF as upper byte); the operand written is
    the full address.  H'FEFF and H'10000 must be rejected.
  * MOV.B @aa without size suffix is generated for 0..H'FEFF only (only the 16-bit form can reach it); for
    H'FF00..H'FFFF the explicit :8 / :16 spellings are used (two encodings exist for the plain text).
  * word accesses (MOV.W @aa:16) and jump targets (JMP/JSR @aa:16) at odd addresses, and odd branch
    targets, are not generated (the manual demands even addresses; AS accepts odd ones silently).
  * #xx:8 is valid from -128 to 255, #xx:16 from -32768 to 65535 (bit-pattern or two's complement reading);
    d:16 likewise (the effective address is computed modulo 2^16).
  * MOV.B Rn,@-R7 / @R7+ (odd stack pointer) are encodable and generated.
  * H8/300H additions (32-bit registers, .L, Bcc d:16, EXTS ...) are not part of this CPU.
"""
from .common import Form, Int, Enum, Rel, Isa, sx
from .m68k import BigEndianWords      # listing reader for big-endian word listings (selftest only)

R8 = ["R%dH" % i for i in range(8)] + ["R%dL" % i for i in range(8)]
R16 = ["R%d" % i for i in range(8)] + ["SP"]
R16C = list(range(8)) + [7]

BCC = {"BRA": 0, "BT": 0, "BRN": 1, "BF": 1, "BHI": 2, "BLS": 3, "BCC": 4, "BHS": 4, "BCS": 5, "BLO": 5, "BNE": 6,
       "BEQ": 7, "BVC": 8, "BVS": 9, "BPL": 10, "BMI": 11, "BGE": 12, "BLT": 13, "BGT": 14, "BLE": 15}

# arithmetic / logic / move: byte register-register operation byte, byte immediate high nibble
BYTE_RR = {"ADD": 0x08, "ADDX": 0x0E, "AND": 0x16, "CMP": 0x1C, "MOV": 0x0C, "OR": 0x14, "SUB": 0x18, "SUBX": 0x1E,
           "XOR": 0x15}
BYTE_IMM = {"ADD": 0x8, "ADDX": 0x9, "CMP": 0xA, "SUBX": 0xB, "OR": 0xC, "XOR": 0xD, "AND": 0xE, "MOV": 0xF}
WORD_RR = {"ADD": 0x09, "CMP": 0x1D, "MOV": 0x0D, "SUB": 0x19}
# one 8-bit register: (operation byte, high nibble of the second byte)
UNARY = {"INC": (0x0A, 0), "DEC": (0x1A, 0), "DAA": (0x0F, 0), "DAS": (0x1F, 0), "NOT": (0x17, 0), "NEG": (0x17, 8),
         "SHLL": (0x10, 0), "SHAL": (0x10, 8), "SHLR": (0x11, 0), "SHAR": (0x11, 8), "ROTXL": (0x12, 0),
         "ROTL": (0x12, 8), "ROTXR": (0x13, 0), "ROTR": (0x13, 8)}
# bit manipulation: (operation byte of the #xx:3 form, inverted-bit flag, operation byte of the Rn form or None,
#                    modifies memory)
BITOPS = {"BSET": (0x70, 0, 0x60, True), "BNOT": (0x71, 0, 0x61, True), "BCLR": (0x72, 0, 0x62, True),
          "BTST": (0x73, 0, 0x63, False),
          "BOR": (0x74, 0, None, False), "BIOR": (0x74, 8, None, False),
          "BXOR": (0x75, 0, None, False), "BIXOR": (0x75, 8, None, False),
          "BAND": (0x76, 0, None, False), "BIAND": (0x76, 8, None, False),
          "BLD": (0x77, 0, None, False), "BILD": (0x77, 8, None, False),
          "BST": (0x67, 0, None, True), "BIST": (0x67, 8, None, True)}

IMM8 = lambda: Int(-128, 255)
IMM16 = lambda: Int(-32768, 65535)
BIT3 = lambda: Int(0, 7)
DISP16 = lambda: Int(-32768, 65535)
ABS8 = lambda: Int(0xFF00, 0xFFFF)
ABS16 = lambda: Int(0, 0xFFFF, rej_lo=False)
ABS16E = lambda: Int(0, 0xFFFE, rej_lo=False, step=2, rej_from=0x10000)     # word / instruction address: even
ABS16LOW = lambda: Int(0, 0xFEFF, rej_lo=False, rej_hi=False)               # plain @aa that only aa:16 reaches
VEC8 = lambda: Int(0, 255, rej_lo=False)


def be(*ws):
    return b"".join(bytes([(w >> 8) & 0xff, w & 0xff]) for w in ws)


def bb(*bs):
    return bytes(b & 0xff for b in bs)


def build():
    F = []

    def add(name, fmt, ops, enc, rel=None):
        F.append(Form(name, fmt, ops, enc, rel))

    def sized(m, sfx, tail, tag, ops, enc):
        """mnemonic with and without its size suffix"""
        add("%s%s %s" % (m, sfx, tag), "%s%s %s" % (m, sfx, tail), ops(), enc)
        add("%s %s" % (m, tag), "%s %s" % (m, tail), ops(), enc)

    r8 = lambda: Enum(R8)
    r16 = lambda: Enum(R16)

    # ---- no operands
    for m, ws in (("NOP", (0x0000,)), ("SLEEP", (0x0180,)), ("RTS", (0x5470,)), ("RTE", (0x5670,)),
                  ("EEPMOV", (0x7B5C, 0x598F))):
        add(m, m, [], (lambda w: lambda pc, v: be(*w))(ws))

    # ---- byte operations Rs,Rd and #xx:8,Rd
    for m, op in BYTE_RR.items():
        sized(m, ".B", "{0},{1}", "Rs,Rd", lambda: [r8(), r8()],
              (lambda o: lambda pc, v: bb(o, v[0] << 4 | v[1]))(op))
    for m, hi in BYTE_IMM.items():
        sized(m, ".B", "#{0},{1}", "#xx:8,Rd", lambda: [IMM8(), r8()],
              (lambda h: lambda pc, v: bb(h << 4 | v[1], v[0]))(hi))

    # ---- word operations Rs,Rd ; MOV.W #xx:16,Rd
    for m, op in WORD_RR.items():
        sized(m, ".W", "{0},{1}", "Rs16,Rd16", lambda: [r16(), r16()],
              (lambda o: lambda pc, v: bb(o, R16C[v[0]] << 4 | R16C[v[1]]))(op))
    sized("MOV", ".W", "#{0},{1}", "#xx:16,Rd16", lambda: [IMM16(), r16()],
          lambda pc, v: bb(0x79, R16C[v[1]]) + be(v[0] & 0xffff))

    # ---- ADDS / SUBS #1|#2,Rd
    for m, op in (("ADDS", 0x0B), ("SUBS", 0x1B)):
        sized(m, ".W", "#{0},{1}", "#1/2,Rd16", lambda: [Int(1, 2), r16()],
              (lambda o: lambda pc, v: bb(o, (0x80 if v[0] == 2 else 0) | R16C[v[1]]))(op))

    # ---- one 8-bit register
    for m, (op, hi) in UNARY.items():
        sized(m, ".B", "{0}", "Rd", lambda: [r8()], (lambda o, h: lambda pc, v: bb(o, h << 4 | v[0]))(op, hi))

    # ---- multiply / divide: 8-bit source, 16-bit destination
    for m, op in (("MULXU", 0x50), ("DIVXU", 0x51)):
        sized(m, ".B", "{0},{1}", "Rs,Rd16", lambda: [r8(), r16()],
              (lambda o: lambda pc, v: bb(o, v[0] << 4 | R16C[v[1]]))(op))

    # ---- MOV.B / MOV.W with memory operands
    for sfx, rd, rc, opi, opd, opp, opa in ((".B", r8, list(range(16)), 0x68, 0x6E, 0x6C, 0x6A),
                                            (".W", r16, R16C, 0x69, 0x6F, 0x6D, 0x6B)):
        t = "16" if sfx == ".W" else ""

        def ld(op, rc=rc):      # <mem Rs>,Rd : vals = [.., Rs(16), Rd]
            return lambda pc, v: bb(op, R16C[v[-2]] << 4 | rc[v[-1]])

        def st(op, rc=rc):      # Rs,<mem Rd> : vals = [Rs, .., Rd(16)]
            return lambda pc, v: bb(op, 0x80 | R16C[v[-1]] << 4 | rc[v[0]])

        sized("MOV", sfx, "@{0},{1}", "@Rs,Rd" + t, lambda: [r16(), rd()], ld(opi))
        sized("MOV", sfx, "{0},@{1}", "Rs%s,@Rd" % t, lambda: [rd(), r16()], st(opi))
        sized("MOV", sfx, "@{0}+,{1}", "@Rs+,Rd" + t, lambda: [r16(), rd()], ld(opp))
        sized("MOV", sfx, "{0},@-{1}", "Rs%s,@-Rd" % t, lambda: [rd(), r16()], st(opp))
        for dsfx in ("", ":16"):
            sized("MOV", sfx, "@({0}%s,{1}),{2}" % dsfx, "@(d%s,Rs),Rd%s" % (dsfx, t), lambda: [DISP16(), r16(), rd()],
                  (lambda f: lambda pc, v: f(pc, v) + be(v[0] & 0xffff))(ld(opd)))
            sized("MOV", sfx, "{0},@({1}%s,{2})" % dsfx, "Rs%s,@(d%s,Rd)" % (t, dsfx), lambda: [rd(), DISP16(), r16()],
                  (lambda f: lambda pc, v: f(pc, v) + be(v[1] & 0xffff))(st(opd)))
        A16 = ABS16 if sfx == ".B" else ABS16E
        sized("MOV", sfx, "@{0}:16,{1}", "@aa:16,Rd" + t, lambda: [A16(), rd()],
              (lambda o, c: lambda pc, v: bb(o, c[v[1]]) + be(v[0]))(opa, rc))
        sized("MOV", sfx, "{0},@{1}:16", "Rs%s,@aa:16" % t, lambda: [rd(), A16()],
              (lambda o, c: lambda pc, v: bb(o, 0x80 | c[v[0]]) + be(v[1]))(opa, rc))
        # without size suffix on the address
        AP = ABS16LOW if sfx == ".B" else ABS16E
        sized("MOV", sfx, "@{0},{1}", "@aa,Rd" + t, lambda: [AP(), rd()],
              (lambda o, c: lambda pc, v: bb(o, c[v[1]]) + be(v[0]))(opa, rc))
        sized("MOV", sfx, "{0},@{1}", "Rs%s,@aa" % t, lambda: [rd(), AP()],
              (lambda o, c: lambda pc, v: bb(o, 0x80 | c[v[0]]) + be(v[1]))(opa, rc))
    sized("MOV", ".B", "@{0}:8,{1}", "@aa:8,Rd", lambda: [ABS8(), r8()], lambda pc, v: bb(0x20 | v[1], v[0]))
    sized("MOV", ".B", "{0},@{1}:8", "Rs,@aa:8", lambda: [r8(), ABS8()], lambda pc, v: bb(0x30 | v[0], v[1]))

    # ---- stack, E-clock transfers
    sized("PUSH", ".W", "{0}", "Rs16", lambda: [r16()], lambda pc, v: bb(0x6D, 0xF0 | R16C[v[0]]))
    sized("POP", ".W", "{0}", "Rd16", lambda: [r16()], lambda pc, v: bb(0x6D, 0x70 | R16C[v[0]]))
    for asfx in ("", ":16"):
        add("MOVFPE @aa%s,Rd" % asfx, "MOVFPE @{0}%s,{1}" % asfx, [ABS16(), r8()],
            lambda pc, v: bb(0x6A, 0x40 | v[1]) + be(v[0]))
        add("MOVTPE Rs,@aa%s" % asfx, "MOVTPE {0},@{1}%s" % asfx, [r8(), ABS16()],
            lambda pc, v: bb(0x6A, 0xC0 | v[0]) + be(v[1]))

    # ---- condition code register
    sized("LDC", ".B", "#{0},CCR", "#xx:8,CCR", lambda: [IMM8()], lambda pc, v: bb(0x07, v[0]))
    sized("LDC", ".B", "{0},CCR", "Rs,CCR", lambda: [r8()], lambda pc, v: bb(0x03, v[0]))
    sized("STC", ".B", "CCR,{0}", "CCR,Rd", lambda: [r8()], lambda pc, v: bb(0x02, v[0]))
    for m, op in (("ANDC", 0x06), ("ORC", 0x04), ("XORC", 0x05)):
        sized(m, ".B", "#{0},CCR", "#xx:8,CCR", lambda: [IMM8()], (lambda o: lambda pc, v: bb(o, v[0]))(op))

    # ---- bit manipulation
    for m, (opi, inv, opr, modifies) in BITOPS.items():
        pre = 0x7D if modifies else 0x7C
        add(m + " #xx:3,Rd", m + " #{0},{1}", [BIT3(), r8()],
            (lambda o, i: lambda pc, v: bb(o, (i | v[0]) << 4 | v[1]))(opi, inv))
        add(m + " #xx:3,@Rd", m + " #{0},@{1}", [BIT3(), r16()],
            (lambda p, o, i: lambda pc, v: bb(p, R16C[v[1]] << 4, o, (i | v[0]) << 4))(pre, opi, inv))
        for asfx in (":8", ""):
            add(m + " #xx:3,@aa" + asfx, m + " #{0},@{1}" + asfx, [BIT3(), ABS8()],
                (lambda p, o, i: lambda pc, v: bb(p + 2, v[1], o, (i | v[0]) << 4))(pre, opi, inv))
        if opr is not None:
            add(m + " Rn,Rd", m + " {0},{1}", [r8(), r8()], (lambda o: lambda pc, v: bb(o, v[0] << 4 | v[1]))(opr))
            add(m + " Rn,@Rd", m + " {0},@{1}", [r8(), r16()],
                (lambda p, o: lambda pc, v: bb(p, R16C[v[1]] << 4, o, v[0] << 4))(pre, opr))
            for asfx in (":8", ""):
                add(m + " Rn,@aa" + asfx, m + " {0},@{1}" + asfx, [r8(), ABS8()],
                    (lambda p, o: lambda pc, v: bb(p + 2, v[1], o, v[0] << 4))(pre, opr))

    # ---- branches: 8-bit displacement from the address of the next instruction, even targets
    for m, cc in BCC.items():
        add(m + " d:8", m + " {0}", [Rel(-64, 63, 2, scale=2)], (lambda c: lambda pc, v: bb(0x40 | c, v[0] * 2))(cc),
            rel=(0, lambda b: sx(b[1], 8) // 2))
    add("BSR d:8", "BSR {0}", [Rel(-64, 63, 2, scale=2)], lambda pc, v: bb(0x55, v[0] * 2),
        rel=(0, lambda b: sx(b[1], 8) // 2))

    # ---- jumps
    for m, op in (("JMP", 0x59), ("JSR", 0x5D)):
        add(m + " @Rn", m + " @{0}", [r16()], (lambda o: lambda pc, v: bb(o, R16C[v[0]] << 4))(op))
        for asfx in ("", ":16"):
            add(m + " @aa" + asfx, m + " @{0}" + asfx, [ABS16E()],
                (lambda o: lambda pc, v: bb(o + 1, 0) + be(v[0]))(op))
        add(m + " @@aa:8", m + " @@{0}", [VEC8()], (lambda o: lambda pc, v: bb(o + 2, v[0]))(op))
    return F


FORMS = build()

ISAS = [
    # t_h8_3 is written for the H8/300H (HD6413309), whose encodings of the H8/300's instructions are identical;
    # only its lines that use 8/16-bit registers and H8/300 addressing syntax can be read as forms of this table
    Isa("H8300", "HD6413308", FORMS, "mot", pcsym="*", gran=BigEndianWords(1), slot=8, base=0x1000,
        offsets=[0, 2, 4], golden=[("t_h8_3", {"hd6413309": True})],
        # not comparable: plain EEPMOV is the H8/300H's word variant there (7BD4), and the test runs in the 16M
        # (MAXMODE ON) address space, where $FFE0 is not the top page and takes a 24-bit absolute address
        golden_ignore=["eepmov", "mov r2 ,@$ffe0"]),
]
