"""Texas Instruments TMS320C30 reference encoder - TMS320C3x User's Guide (SPRU031), chapter "Assembly
language instructions": instruction formats (general addressing modes, three-operand addressing modes,
conditional-branch addressing modes, long-immediate), the condition-code table, the indirect-addressing
table (mod field) and the individual instruction descriptions.  Written from TI's definition, not from
code3203x.c.

All instructions are one 32-bit word; CODE addresses are word addresses (the code file stores every word
least significant byte first, doc/file-formats.md).

General two-operand format        000 oooooo gg ddddd ssssssssssssssss
    o (bits 28..23)  ABSF 00 ABSI 01 ADDC 02 ADDF 03 ADDI 04 AND 05 ANDN 06 ASH 07 CMPF 08 CMPI 09 FIX 0A FLOAT 0B
                     IDLE 0C LDE 0D LDF 0E LDFI 0F LDI 10 LDII 11 LDM 12 LSH 13 MPYF 14 MPYI 15 NEGB 16 NEGF 17
                     NEGI 18 NOP 19 NORM 1A NOT 1B POP 1C POPF 1D PUSH 1E PUSHF 1F OR 20 RND 22 ROL 23 ROLC 24
                     ROR 25 RORC 26 RPTS 27 STF 28 STFI 29 STI 2A STII 2B SIGI 2C SUBB 2D SUBC 2E SUBF 2F SUBI 30
                     SUBRB 31 SUBRF 32 SUBRI 33 TSTB 34 XOR 35 IACK 36
    g (bits 22..21)  00 register (src = register number in bits 4..0)     01 direct (@addr, 16 low address bits,
                     the upper 8 bits come from DP)    10 indirect (mmmmm aaa dddddddd)    11 short immediate
    d (bits 20..16)  destination register (source register of the stores)
    registers        R0-R7 00-07  AR0-AR7 08-0F  DP 10  IR0 11  IR1 12  BK 13  SP 14  ST 15  IE 16  IF 17  IOF 18
                     RS 19  RE 1A  RC 1B
    indirect mod     00000 *+ARn(disp)   00001 *-ARn(disp)   00010 *++ARn(disp)  00011 *--ARn(disp)
                     00100 *ARn++(disp)  00101 *ARn--(disp)  00110 *ARn++(disp)% 00111 *ARn--(disp)%
                     01000..01111 the same with IR0, 10000..10111 with IR1 instead of disp
                     11000 *ARn   11001 *ARn++(IR0)B         disp 0..255 unsigned, omitted = 1
    fixed operands   POP/POPF/PUSH/PUSHF g=01 src=0; ROL/ROLC g=11 src=1; ROR/RORC g=11 src=FFFF (see KNOWN below);
                     RPTS d=RC(1B)
    LDP src,DP       = LDI of the 8 upper address bits into DP: 0870 00pp
Conditional loads                 LDFcond 0100 ccccc gg ddddd src     LDIcond 0101 ccccc gg ddddd src
Three-operand format              001 oooooo tt ddddd 11111111 22222222   (bits 15..8 src1, bits 7..0 src2)
    o   ADDC3 00 ADDF3 01 ADDI3 02 AND3 03 ANDN3 04 ASH3 05 CMPF3 06 CMPI3 07 LSH3 08 MPYF3 09 MPYI3 0A OR3 0B
        SUBB3 0C SUBF3 0D SUBI3 0E TSTB3 0F XOR3 10
    t   00 src1 register, src2 register   01 src1 indirect, src2 register   10 src1 register, src2 indirect
        11 both indirect;  indirect = mmmmm aaa (displacement 1 implied, or IR0/IR1, or *ARn)
    TI's operand order is  op3 src2,src1,dst  (SUBI3 src2,src1,dst: src1 - src2 -> dst)
Program control
    BR 60 / BRD 61 / CALL 62 / RPTB 64 + 24-bit address            SWI 66000000
    Bcond[D]      0110 10b 000 D ccccc  src     b=0 register, b=1 16-bit displacement
    DBcond[D]     0110 11b aaa D ccccc  src     aaa = ARn
    CALLcond      0111 00b 0000 ccccc   src
    RETIcond 7800 0000 | c<<16     RETScond 7880 0000 | c<<16
    displacement = target - (address of the instruction + 1), delayed branches: + 3
    cond  U 00 LO 01 LS 02 HI 03 HS 04 EQ 05 NE 06 LT 07 LE 08 GT 09 GE 0A NV 0C V 0D NUF 0E UF 0F NLV 10 LV 11
          NLUF 12 LUF 13 ZUF 14;  second names C=LO NC=HS Z=EQ NZ=NE N=LT NN=GE P=GT

AS syntax (tests/t_3203x, syntax only): TI's notation; immediates are written without prefix, direct
addresses with '@'; LDP @addr[,DP].

Short immediates: the arithmetic instructions take a 16-bit two's complement constant (-32768..32767), the
logical instructions (AND ANDN OR XOR TSTB) an unsigned one (0..65535).  The respective other reading of the
16-bit field (32768..65535 for arithmetic, -32768..-1 for logical instructions) is not generated; values
needing more than 16 bits in either reading must be rejected.  NOT, SUBC and RPTS (TI does not say clearly
which reading applies) are generated with 0..32767 only.

Excluded by construction:
  * parallel instructions, floating point immediates (brief); the floating point instructions are generated
    with the extended-precision registers R0-R7 only (TI: float operands live in R0-R7)
  * direct addresses outside the page assumed for DP (AS warns); the table TMS320C30-dp covers the direct forms
    with ASSUME DP:0ABh and full 24-bit addresses 0AB0000h..0ABFFFFh; addresses >= 2^24 must be rejected
  * a displacement 0 in *+ARn(0) / *-ARn(0) (same effective address as *ARn; AS chooses mod 11000)
  * the one-operand short forms (ABSI R1 = ABSI R1,R1), three operands on the two-operand mnemonic and two on
    the three-operand one (exception: CMPF / CMPI / TSTB src2,indirect, which can only be the three-operand
    instruction), NOP/IACK with operand kinds TI does not list, B without condition, register aliases
  * KNOWN: ROL / ROLC / ROR / RORC dst.  TI: 000 100011 11 ddddd 0000000000000001 (ROL; ROLC 100100) and
    000 100101 11 ddddd 1111111111111111 (ROR; RORC 100110) - the rotate instructions carry the count +1 / -1 in
    the immediate field.  AS leaves the field 0 (ROL R4 = 11E40000); tests/t_3203x asserts these words
    (proposed/C14/c3x-rotate-count.md).
  * KNOWN: TRAPcond n.  TI: 0111 0100 000 ccccc 0000 0000 001n nnnn, n = 0..31 (the trap vectors are the words
    20h+n of the vector table).  AS assembles 7400 000n without bit 5 and rejects n > 15; tests/t_3203x asserts
    74000007 for TRAPU 7, so the repair would edit a golden image (proposed/C14/c3x-trap-vector.md).
"""
from .common import Form, Int, Enum, Rel, Isa, sx

REGS = ["R%d" % i for i in range(8)] + ["AR%d" % i for i in range(8)] + \
       ["DP", "IR0", "IR1", "BK", "SP", "ST", "IE", "IF", "IOF", "RS", "RE", "RC"]
FREGS = REGS[:8]
ARS = ["AR%d" % i for i in range(8)]

CONDS = [("U", 0x00), ("LO", 0x01), ("LS", 0x02), ("HI", 0x03), ("HS", 0x04), ("EQ", 0x05), ("NE", 0x06),
         ("LT", 0x07), ("LE", 0x08), ("GT", 0x09), ("GE", 0x0A), ("NV", 0x0C), ("V", 0x0D), ("NUF", 0x0E),
         ("UF", 0x0F), ("NLV", 0x10), ("LV", 0x11), ("NLUF", 0x12), ("LUF", 0x13), ("ZUF", 0x14),
         ("C", 0x01), ("NC", 0x04), ("Z", 0x05), ("NZ", 0x06), ("N", 0x07), ("NN", 0x0A), ("P", 0x09)]
COND_NAMES = [n for n, _ in CONDS]
COND_CODE = [c for _, c in CONDS]

# spellings of the eight displacement modes, {a} = ARn, {d} = displacement part
DISP_MODES = ["*+{a}{d}", "*-{a}{d}", "*++{a}{d}", "*--{a}{d}", "*{a}++{d}", "*{a}--{d}", "*{a}++{d}%", "*{a}--{d}%"]

# indirect operands without a displacement value: (spelling, mod, displacement byte of the general format)
_IND = []
for _a in range(8):
    for _m, _s in enumerate(DISP_MODES):
        _IND.append((_s.format(a=ARS[_a], d=""), _m, _a, 1))
        _IND.append((_s.format(a=ARS[_a], d="(IR0)"), 8 + _m, _a, 0))
        _IND.append((_s.format(a=ARS[_a], d="(IR1)"), 16 + _m, _a, 0))
    _IND.append(("*" + ARS[_a], 0x18, _a, 0))
    _IND.append(("*%s++(IR0)B" % ARS[_a], 0x19, _a, 0))
IND_NAMES = [x[0] for x in _IND]


class Ind(Enum):
    """indirect operand without displacement value; the fixed cases visit every mode with two of the
    auxiliary registers (and so every register), random cases draw from all 208 combinations"""

    def __init__(self):
        Enum.__init__(self, IND_NAMES)

    def boundary_ok(self):
        out = []
        for i, (_, m, a, _d) in enumerate(_IND):
            if a in (m % 8, 7 - m % 8):
                out.append(i)
        return out


def ind8(v):
    """mmmmm aaa"""
    _, m, a, _d = _IND[v]
    return m << 3 | a


def ind16(v):
    """mmmmm aaa dddddddd of the general format"""
    return ind8(v) << 8 | _IND[v][3]


class UImm(Int):
    """unsigned 16-bit constant of the logical instructions: -32768..-1 (the two's complement reading of the
    same field) is not generated, anything below must be rejected"""

    def __init__(self):
        Int.__init__(self, 0, 65535, rej_lo=False, rej_hi=True)

    def classify(self, v, pc=0, vals=None):
        if v < -32768:
            return "rej"
        return Int.classify(self, v, pc, vals)

    def boundary_rej(self):
        return Int.boundary_rej(self) + [-32769, -32770, 65535 - (1 << 32)]

    def opclass(self, v):
        if v in (-32769, -32770):
            return "field-%d" % (-32768 - v)
        return Int.opclass(self, v)

    def draw_rej(self, d):
        if d.int(0, 3) == 0:
            return -32769 - d.int(0, 70000)
        return Int.draw_rej(self, d)


SIMM = lambda: Int(-32768, 32767, rej_from=65536)
CIMM = lambda: Int(0, 32767, rej_lo=False, rej_from=65536)
ADDR24 = lambda: Int(0, 0xFFFFFF, rej_lo=False, extra=[0x10000, 0xFFFF, 0x800000])
R = lambda: Enum(REGS)
FR = lambda: Enum(FREGS)
AR = lambda: Enum(ARS)
CC = lambda: Enum(COND_NAMES)

# two-operand instructions with all four general addressing modes: opcode, immediate kind
INT_G = {"ABSI": (0x01, SIMM), "ADDC": (0x02, SIMM), "ADDI": (0x04, SIMM), "AND": (0x05, UImm), "ANDN": (0x06, UImm),
         "ASH": (0x07, SIMM), "CMPI": (0x09, SIMM), "LDI": (0x10, SIMM), "LSH": (0x13, SIMM), "MPYI": (0x15, SIMM),
         "NEGB": (0x16, SIMM), "NEGI": (0x18, SIMM), "NOT": (0x1B, CIMM), "OR": (0x20, UImm), "SUBB": (0x2D, SIMM),
         "SUBC": (0x2E, CIMM), "SUBI": (0x30, SIMM), "SUBRB": (0x31, SIMM), "SUBRI": (0x33, SIMM),
         "TSTB": (0x34, UImm), "XOR": (0x35, UImm)}
# floating point: register (R0-R7), direct and indirect sources only
FLT_G = {"ABSF": 0x00, "ADDF": 0x03, "CMPF": 0x08, "FIX": 0x0A, "FLOAT": 0x0B, "LDE": 0x0D, "LDF": 0x0E, "LDM": 0x12,
         "MPYF": 0x14, "NEGF": 0x17, "NORM": 0x1A, "RND": 0x22, "SUBF": 0x2F, "SUBRF": 0x32}
# interlocked loads (direct / indirect only) and stores (register, direct / indirect destination)
MEM_LOAD = {"LDFI": (0x0F, FR), "LDII": (0x11, R)}
STORES = {"STF": (0x28, FR), "STFI": (0x29, FR), "STI": (0x2A, R), "STII": (0x2B, R)}
THREE = {"ADDC3": (0x00, R, True), "ADDF3": (0x01, FR, True), "ADDI3": (0x02, R, True), "AND3": (0x03, R, True),
         "ANDN3": (0x04, R, True), "ASH3": (0x05, R, True), "CMPF3": (0x06, FR, False), "CMPI3": (0x07, R, False),
         "LSH3": (0x08, R, True), "MPYF3": (0x09, FR, True), "MPYI3": (0x0A, R, True), "OR3": (0x0B, R, True),
         "SUBB3": (0x0C, R, True), "SUBF3": (0x0D, FR, True), "SUBI3": (0x0E, R, True), "TSTB3": (0x0F, R, False),
         "XOR3": (0x10, R, True)}


def w32(v):
    return (v & 0xffffffff).to_bytes(4, "little")


def rel16(b):
    return sx(int.from_bytes(b[:4], "little") & 0xffff, 16)


def build(page=0, only_direct=False):
    """page = the data page assumed for DP (ASSUME DP:page): direct addresses are written in full, the
    instruction holds their 16 low bits"""
    F = []
    DIRECT = lambda: Int(page << 16, page << 16 | 0xFFFF, rej_lo=False, rej_from=1 << 24)

    def add(name, fmt, ops, enc, rel=None):
        if only_direct and "@dir" not in name:
            return
        F.append(Form(name, fmt, ops, (lambda e: lambda pc, v: w32(e(v)))(enc), rel=rel))

    def gsrc(name, mn, base, tail_fmt, tail_ops, dst, regop=None, immop=None, direct=True, indirect=True):
        """the general addressing modes of one instruction: `mn src<tail_fmt>`.
        base = instruction word without g / dst / src; dst(vals of the tail operands) -> bits 20..16;
        mn may contain placeholders of leading operands (condition), counted in `lead`"""
        lead = mn.count("{")
        leadops = tail_ops[:lead]
        rest = tail_ops[lead:]
        n0 = lead                           # index of the first source operand

        def fm(src, nsrc):
            # renumber: leading operands, source operands, remaining operands
            t = tail_fmt
            for k in range(len(rest) - 1, -1, -1):
                t = t.replace("{T%d}" % k, "{%d}" % (n0 + nsrc + k))
            return mn + " " + src + t

        def mk(nsrc, g, srcenc):
            def e(v):
                other = v[:lead] + v[lead + nsrc:]
                return base(other) | g << 21 | dst(other) << 16 | srcenc(v[lead:lead + nsrc])
            return e

        if regop:
            add(name + " reg", fm("{%d}" % n0, 1), leadops + [regop()] + rest, mk(1, 0, lambda s: s[0]))
        if direct:
            add(name + " @dir", fm("@{%d}" % n0, 1), leadops + [DIRECT()] + rest, mk(1, 1, lambda s: s[0] & 0xffff))
        if indirect:
            add(name + " ind", fm("{%d}" % n0, 1), leadops + [Ind()] + rest, mk(1, 2, lambda s: ind16(s[0])))
            for m, sp in enumerate(DISP_MODES):
                disp = Int(1, 255, rej_lo=False) if m < 2 else Int(0, 255)
                add("%s %s" % (name, sp.format(a="ARn", d="(d)")),
                    fm(sp.format(a="{%d}" % n0, d="({%d})" % (n0 + 1)), 2), leadops + [AR(), disp] + rest,
                    mk(2, 2, (lambda m: lambda s: (m << 3 | s[0]) << 8 | s[1])(m)))
        if immop:
            add(name + " imm", fm("{%d}" % n0, 1), leadops + [immop()] + rest, mk(1, 3, lambda s: s[0] & 0xffff))

    # --- no operands
    for mn, w in (("NOP", 0x0C800000), ("IDLE", 0x06000000), ("SIGI", 0x16000000), ("SWI", 0x66000000),
                  ("RETI", 0x78000000), ("RETS", 0x78800000)):
        add(mn, mn, [], (lambda w: lambda v: w)(w))

    # --- general two-operand instructions
    for mn, (op, imm) in INT_G.items():
        gsrc(mn, mn, (lambda o: lambda t: o << 23)(op), ",{T0}", [R()], lambda t: t[0], regop=R, immop=imm)
    for mn, op in FLT_G.items():
        gsrc(mn, mn, (lambda o: lambda t: o << 23)(op), ",{T0}", [FR()], lambda t: t[0], regop=FR)
    for mn, (op, rg) in MEM_LOAD.items():
        gsrc(mn, mn, (lambda o: lambda t: o << 23)(op), ",{T0}", [rg()], lambda t: t[0])
    # conditional loads: the condition is part of the mnemonic
    gsrc("LDIcond", "LDI{0}", lambda t: 0x50000000 | COND_CODE[t[0]] << 23, ",{T0}", [CC(), R()], lambda t: t[1],
         regop=R, immop=SIMM)
    gsrc("LDFcond", "LDF{0}", lambda t: 0x40000000 | COND_CODE[t[0]] << 23, ",{T0}", [CC(), FR()], lambda t: t[1],
         regop=FR)
    # NOP / IACK / RPTS with a memory operand
    gsrc("NOP", "NOP", lambda t: 0x19 << 23, "", [], lambda t: 0, direct=False)
    gsrc("IACK", "IACK", lambda t: 0x36 << 23, "", [], lambda t: 0)
    gsrc("RPTS", "RPTS", lambda t: 0x27 << 23, "", [], lambda t: 0x1B, regop=R, immop=CIMM)

    # --- stores: STI src,dst with the register first
    for mn, (op, rg) in STORES.items():
        add(mn + " reg,@dir", mn + " {0},@{1}", [rg(), DIRECT()],
            (lambda o: lambda v: o << 23 | 1 << 21 | v[0] << 16 | v[1] & 0xffff)(op))
        add(mn + " reg,ind", mn + " {0},{1}", [rg(), Ind()],
            (lambda o: lambda v: o << 23 | 2 << 21 | v[0] << 16 | ind16(v[1]))(op))
        for m, sp in enumerate(DISP_MODES):
            disp = Int(1, 255, rej_lo=False) if m < 2 else Int(0, 255)
            add("%s reg,%s" % (mn, sp.format(a="ARn", d="(d)")), mn + " {0}," + sp.format(a="{1}", d="({2})"),
                [rg(), AR(), disp],
                (lambda o, m: lambda v: o << 23 | 2 << 21 | v[0] << 16 | (m << 3 | v[1]) << 8 | v[2])(op, m))

    # --- register-only instructions
    for mn, w, rg in (("POP", 0x0E200000, R), ("POPF", 0x0EA00000, FR), ("PUSH", 0x0F200000, R),
                      ("PUSHF", 0x0FA00000, FR)):
        add(mn + " reg", mn + " {0}", [rg()], (lambda w: lambda v: w | v[0] << 16)(w))
    # KNOWN: ROL 11E00001 / ROLC 12600001 / ROR 12E0FFFF / RORC 1360FFFF | dst << 16 (TI: rotates are encoded with
    # the short immediate count 1 resp. -1) are left out: AS emits the words without the count (11E40000 for
    # ROL R4) and the golden image of tests/t_3203x asserts that (proposed/C14/c3x-rotate-count.md)

    # --- LDP
    PAGE = lambda: Int(0, 0xFFFFFF, rej_lo=False, extra=[0xFFFF, 0x10000, 0x800000])
    add("LDP @addr,DP", "LDP @{0},DP", [PAGE()], lambda v: 0x08700000 | v[0] >> 16)
    add("LDP @addr", "LDP @{0}", [PAGE()], lambda v: 0x08700000 | v[0] >> 16)

    # --- three-operand instructions: op3 src2,src1[,dst]
    for mn, (op, rg, hasdst) in THREE.items():
        dfmt = ",{%d}" if hasdst else ""

        def f3(name, fmt, ops, t, s2, s1, nd):
            dst = (lambda nd: lambda v: v[nd])(nd) if hasdst else (lambda v: 0)
            add(name, fmt + (dfmt % nd if hasdst else ""), ops + ([rg()] if hasdst else []),
                (lambda o, t, s2, s1, dst: lambda v: 1 << 29 | o << 23 | t << 21 | dst(v) << 16 | s1(v) << 8 | s2(v))
                (op, t, s2, s1, dst))

        f3(mn + " reg,reg", mn + " {0},{1}", [rg(), rg()], 0, lambda v: v[0], lambda v: v[1], 2)
        f3(mn + " ind,reg", mn + " {0},{1}", [Ind(), rg()], 2, lambda v: ind8(v[0]), lambda v: v[1], 2)
        f3(mn + " reg,ind", mn + " {0},{1}", [rg(), Ind()], 1, lambda v: v[0], lambda v: ind8(v[1]), 2)
        f3(mn + " ind,ind", mn + " {0},{1}", [Ind(), Ind()], 3, lambda v: ind8(v[0]), lambda v: ind8(v[1]), 2)
        # explicit displacement: only 1 exists (0 with *+ARn / *-ARn names *ARn and is not generated)
        for m, sp in enumerate(DISP_MODES):
            one = lambda m=m: Int(1, 1, rej_lo=(m >= 2), rej_hi=True)
            f3("%s %s,reg" % (mn, sp.format(a="ARn", d="(d)")), mn + " " + sp.format(a="{0}", d="({1})") + ",{2}",
               [AR(), one(), rg()], 2, (lambda m: lambda v: m << 3 | v[0])(m), lambda v: v[2], 3)
            f3("%s reg,%s" % (mn, sp.format(a="ARn", d="(d)")), mn + " {0}," + sp.format(a="{1}", d="({2})"),
               [rg(), AR(), one()], 1, lambda v: v[0], (lambda m: lambda v: m << 3 | v[1])(m), 3)

    # --- the flag-setting instructions written without the 3 (TI's assembler lets the suffix of the three-operand
    # mnemonics be omitted): with an indirect second operand only the three-operand encoding exists
    for mn, mn3 in (("CMPF", "CMPF3"), ("CMPI", "CMPI3"), ("TSTB", "TSTB3")):
        op, rg, _ = THREE[mn3]
        add(mn + " reg,ind (=3)", mn + " {0},{1}", [rg(), Ind()],
            (lambda o: lambda v: 1 << 29 | o << 23 | 1 << 21 | ind8(v[1]) << 8 | v[0])(op))
        add(mn + " ind,ind (=3)", mn + " {0},{1}", [Ind(), Ind()],
            (lambda o: lambda v: 1 << 29 | o << 23 | 3 << 21 | ind8(v[1]) << 8 | ind8(v[0]))(op))

    # --- program control
    for mn, w in (("BR", 0x60000000), ("BRD", 0x61000000), ("CALL", 0x62000000), ("RPTB", 0x64000000)):
        add(mn + " addr", mn + " {0}", [ADDR24()], (lambda w: lambda v: w | v[0])(w))
    for d, sfx, off in ((0, "", 1), (1, "D", 3)):
        add("Bcond%s reg" % sfx, "B{0}%s {1}" % sfx, [CC(), R()],
            (lambda d: lambda v: 0x68000000 | d << 21 | COND_CODE[v[0]] << 16 | v[1])(d))
        add("Bcond%s disp" % sfx, "B{0}%s {1}" % sfx, [CC(), Rel(-32768, 32767, off)],
            (lambda d: lambda v: 0x6A000000 | d << 21 | COND_CODE[v[0]] << 16 | v[1] & 0xffff)(d), rel=(1, rel16))
        add("DBcond%s ARn,reg" % sfx, "DB{0}%s {1},{2}" % sfx, [CC(), AR(), R()],
            (lambda d: lambda v: 0x6C000000 | v[1] << 22 | d << 21 | COND_CODE[v[0]] << 16 | v[2])(d))
        add("DBcond%s ARn,disp" % sfx, "DB{0}%s {1},{2}" % sfx, [CC(), AR(), Rel(-32768, 32767, off)],
            (lambda d: lambda v: 0x6E000000 | v[1] << 22 | d << 21 | COND_CODE[v[0]] << 16 | v[2] & 0xffff)(d),
            rel=(2, rel16))
    add("CALLcond reg", "CALL{0} {1}", [CC(), R()], lambda v: 0x70000000 | COND_CODE[v[0]] << 16 | v[1])
    add("CALLcond disp", "CALL{0} {1}", [CC(), Rel(-32768, 32767, 1)],
        lambda v: 0x72000000 | COND_CODE[v[0]] << 16 | v[1] & 0xffff, rel=(1, rel16))
    add("RETIcond", "RETI{0}", [CC()], lambda v: 0x78000000 | COND_CODE[v[0]] << 16)
    add("RETScond", "RETS{0}", [CC()], lambda v: 0x78800000 | COND_CODE[v[0]] << 16)
    # KNOWN: TRAPcond n (TI 74000020 | cond << 16 | n, n = 0..31) is left out: AS encodes 7400000n, n <= 15, and
    # the golden image of tests/t_3203x asserts that (see the module comment and proposed/C14/c3x-trap-vector.md)
    return F


ISAS = [Isa("TMS320C30", "320C30", build(), "intel", pcsym="$", gran=4, slot=2, base=0x20000, maxaddr=0xffffff,
            offsets=[0, 1], golden=[("t_3203x", {"320c30": True})]),
        # direct addressing inside another data page (doc "ASSUME" for the 320C3x: a full 24-bit address may be
        # written, its upper 8 bits are compared with the assumed DP); addresses of other pages only draw a
        # warning and are not generated, addresses beyond the 16M address space must be rejected
        Isa("TMS320C30-dp", "320C30", build(0xAB, True), "intel", gran=4, slot=2, base=0x20000, maxaddr=0xffffff,
            offsets=[0, 1], prologue=["\tassume\tdp:0ABh"])]
