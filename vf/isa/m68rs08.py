"""Freescale RS08 (MC9RS08KA2 ...) reference encoder.

Source of truth: the opcode map and the instruction set summary of the RS08 Core Reference Manual
(RS08RM, Freescale 2006).  Written from Freescale's definition, not from code68rs08.c.

Opcode map (high nibble = column):
  0x  BRSETn / BRCLRn dir,rel  (00+2n / 01+2n)        1x  BSETn / BCLRn dir  (10+2n / 11+2n)
  2x  INC tiny        5x  DEC tiny        6x  ADD tiny        7x  SUB tiny       (address in the low nibble)
  8x/9x  CLR short    Cx/Dx  LDA short    Ex/Fx  STA short                       (address in the low 5 bits)
  3x  30 BRA 31 CBEQ dir 34 BCC 35 BCS 36 BNE 37 BEQ 38 CLC 39 SEC 3A DEC dir 3B DBNZ dir 3C INC dir
      3E MOV #,dir 3F CLR dir
  4x  41 CBEQA # 42 SLA 43 COMA 44 LSRA 45 SHA 46 RORA 48 LSLA 49 ROLA 4A DECA 4B DBNZA 4C INCA
      4E MOV dir,dir 4F CLRA
  Ax  immediate: A0 SUB A1 CMP A2 SBC A4 AND A6 LDA A8 EOR A9 ADC AA ORA AB ADD | AC NOP AD BSR AE STOP AF WAIT
  Bx  direct:    B0 SUB B1 CMP B2 SBC B4 AND B6 LDA B7 STA B8 EOR B9 ADC BA ORA BB ADD | BC JMP BD JSR BE RTS
      BF BGND

The index register X is the memory location $0F, the indexed data register D[X] the location $0E; the
manual's "pseudo instructions" are the ordinary forms with these addresses:  `op ,X` = `op $0E`, `op X`
= `op $0F` (hence tiny / short where the instruction has such a form: INC ,X = 2E, LDA ,X = CE, STA X
= EF = TAX, CLRX = 8F, INCX = 2F, DECX = 5F), LDX = MOV ..,$0F (3E ii 0F / 4E dd 0F), STX = MOV $0F,dd,
TST dd = MOV dd,dd, TSTA = ORA #0 (AA 00), TXA = LDA $0F (CF), BRN = BRA with a zero offset (30 00).

Operand-size selection (RS08RM: the assembler uses tiny / short addressing whenever the address
permits): INC/DEC/ADD/SUB with a known address 0..$0F take the tiny form, CLR/LDA/STA with a known address
0..$1F the short form, all other addresses the 8-bit direct form.

Excluded by construction:
  * the force characters `<` / `>` (used in tests/t_68rs08, described neither by RS08RM nor by AS's manual)
  * AS-specific mnemonics with the bit number in the name (BSET0 ..), `X` / `D[X]` operands of instructions
    for which RS08RM does not list the pseudo form (LDA X, LDX X, MOV X,..), negative addresses
  * direct addresses above $FF: the field is 8 bits wide (they must be rejected); JMP/JSR targets above
    $3FFF (the RS08's program counter has 14 bits, AS documents a 16K address space): not generated, from
    $10000 on they must be rejected
  * KNOWN: LDX ,X - the golden image of tests/t_68rs08 asserts 4E 0E 0E where RS08RM has 4E 0E 0F
    (proposed/C14/rs08-ldx-indexed.md); not generated
  * BRN: the operand is not encoded (30 00); only targets a short branch could reach are generated, no
    rejection is expected
"""
from .common import Form, Int, Rel, Isa, sx


class RelNoRej(Rel):
    """relative operand whose value does not enter the encoding: distances beyond the limits are excluded"""

    def classify(self, v, pc=0, vals=None):
        return "ok" if self.lo <= v <= self.hi else "excl"

    def boundary_rej(self):
        return []

    def draw_rej(self, d):
        return None


IMM8 = lambda: Int(-128, 255)
BITN = lambda: Int(0, 7)
REL = lambda off: Rel(-128, 127, off)


def D8(lo=0):
    return Int(lo, 255, rej_lo=False)


def pre(*p):
    return lambda pc, v: bytes(list(p) + [x & 0xff for x in v])


def rel_at(i):
    return lambda b: sx(b[i], 8)


ALU = {"SUB": 0x0, "CMP": 0x1, "SBC": 0x2, "AND": 0x4, "EOR": 0x8, "ADC": 0x9, "ORA": 0xA, "ADD": 0xB}
TINY = {"INC": 0x20, "DEC": 0x50, "ADD": 0x60, "SUB": 0x70}
SHORT = {"CLR": 0x80, "LDA": 0xC0, "STA": 0xE0}
BRANCH = {"BRA": 0x30, "BCC": 0x34, "BHS": 0x34, "BCS": 0x35, "BLO": 0x35, "BNE": 0x36, "BEQ": 0x37}
INH = {"CLC": 0x38, "SEC": 0x39, "SLA": 0x42, "COMA": 0x43, "LSRA": 0x44, "SHA": 0x45, "RORA": 0x46,
       "LSLA": 0x48, "ASLA": 0x48, "ROLA": 0x49, "DECA": 0x4A, "INCA": 0x4C, "CLRA": 0x4F,
       "NOP": 0xAC, "STOP": 0xAE, "WAIT": 0xAF, "RTS": 0xBE, "BGND": 0xBF,
       "CLRX": 0x8F, "INCX": 0x2F, "DECX": 0x5F, "TAX": 0xEF, "TXA": 0xCF}


LDX_IX = False


def build():
    F = []

    def add(name, fmt, ops, enc, rel=None):
        F.append(Form(name, fmt, ops, enc, rel))

    # ---- bit manipulation
    for m, base in (("BSET", 0x10), ("BCLR", 0x11)):
        add(m + " n,dir", m + " {0},{1}", [BITN(), D8()], lambda pc, v, b=base: bytes([b + 2 * v[0], v[1]]))
        add(m + " n,D[X]", m + " {0},D[X]", [BITN()], lambda pc, v, b=base: bytes([b + 2 * v[0], 0x0E]))
        add(m + " n,X", m + " {0},X", [BITN()], lambda pc, v, b=base: bytes([b + 2 * v[0], 0x0F]))
    for m, base in (("BRSET", 0x00), ("BRCLR", 0x01)):
        add(m + " n,dir,rel", m + " {0},{1},{2}", [BITN(), D8(), REL(3)],
            lambda pc, v, b=base: bytes([b + 2 * v[0], v[1], v[2] & 0xff]), (2, rel_at(2)))
        add(m + " n,D[X],rel", m + " {0},D[X],{1}", [BITN(), REL(3)],
            lambda pc, v, b=base: bytes([b + 2 * v[0], 0x0E, v[1] & 0xff]), (1, rel_at(2)))
        add(m + " n,X,rel", m + " {0},X,{1}", [BITN(), REL(3)],
            lambda pc, v, b=base: bytes([b + 2 * v[0], 0x0F, v[1] & 0xff]), (1, rel_at(2)))

    # ---- branches
    for m, op in BRANCH.items():
        add(m + " rel", m + " {0}", [REL(2)], pre(op), (0, rel_at(1)))
    add("BSR rel", "BSR {0}", [REL(2)], pre(0xAD), (0, rel_at(1)))
    add("BRN rel", "BRN {0}", [RelNoRej(-128, 127, 2)], lambda pc, v: bytes([0x30, 0x00]))

    # ---- accumulator / memory
    for m, row in ALU.items():
        add(m + " #imm", m + " #{0}", [IMM8()], pre(0xA0 | row))
        if m in TINY:
            add(m + " tiny", m + " {0}", [Int(0, 15, rej_lo=False, rej_hi=False)],
                lambda pc, v, b=TINY[m]: bytes([b | v[0]]))
            add(m + " dir", m + " {0}", [D8(16)], pre(0xB0 | row))
            add(m + " ,X", m + " ,X", [], pre(TINY[m] | 0x0E))
            add(m + " X", m + " X", [], pre(TINY[m] | 0x0F))
        else:
            add(m + " dir", m + " {0}", [D8()], pre(0xB0 | row))
            add(m + " ,X", m + " ,X", [], pre(0xB0 | row, 0x0E))
            add(m + " X", m + " X", [], pre(0xB0 | row, 0x0F))

    add("LDA #imm", "LDA #{0}", [IMM8()], pre(0xA6))
    for m, dirop in (("LDA", 0xB6), ("STA", 0xB7), ("CLR", 0x3F)):
        add(m + " short", m + " {0}", [Int(0, 31, rej_lo=False, rej_hi=False)],
            lambda pc, v, b=SHORT[m]: bytes([b | v[0]]))
        add(m + " dir", m + " {0}", [D8(32)], pre(dirop))
        add(m + " ,X", m + " ,X", [], pre(SHORT[m] | 0x0E))
    add("STA X", "STA X", [], pre(0xEF))

    for m, dirop in (("INC", 0x3C), ("DEC", 0x3A)):
        add(m + " tiny", m + " {0}", [Int(0, 15, rej_lo=False, rej_hi=False)],
            lambda pc, v, b=TINY[m]: bytes([b | v[0]]))
        add(m + " dir", m + " {0}", [D8(16)], pre(dirop))
        add(m + " ,X", m + " ,X", [], pre(TINY[m] | 0x0E))
        add(m + " X", m + " X", [], pre(TINY[m] | 0x0F))

    # ---- pseudo instructions on X
    add("LDX #imm", "LDX #{0}", [IMM8()], lambda pc, v: bytes([0x3E, v[0] & 0xff, 0x0F]))
    add("LDX dir", "LDX {0}", [D8()], lambda pc, v: bytes([0x4E, v[0], 0x0F]))
    # KNOWN: LDX ,X (= MOV D[X],X: 4E 0E 0F) is assembled as 4E 0E 0E (= TST ,X) and tests/t_68rs08 asserts that
    # image, so the form is left out (proposed/C14/rs08-ldx-indexed.md)
    if LDX_IX:
        add("LDX ,X", "LDX ,X", [], pre(0x4E, 0x0E, 0x0F))
    add("STX dir", "STX {0}", [D8()], lambda pc, v: bytes([0x4E, 0x0F, v[0]]))
    add("TST dir", "TST {0}", [D8()], lambda pc, v: bytes([0x4E, v[0], v[0]]))
    add("TST ,X", "TST ,X", [], pre(0x4E, 0x0E, 0x0E))
    add("TST X", "TST X", [], pre(0x4E, 0x0F, 0x0F))
    add("TSTX", "TSTX", [], pre(0x4E, 0x0F, 0x0F))
    add("TSTA", "TSTA", [], pre(0xAA, 0x00))

    # ---- moves
    add("MOV #imm,dir", "MOV #{0},{1}", [IMM8(), D8()], pre(0x3E))
    add("MOV dir,dir", "MOV {0},{1}", [D8(), D8()], pre(0x4E))          # 4E source destination
    add("MOV D[X],dir", "MOV D[X],{0}", [D8()], pre(0x4E, 0x0E))
    add("MOV dir,D[X]", "MOV {0},D[X]", [D8()], lambda pc, v: bytes([0x4E, v[0], 0x0E]))
    add("MOV #imm,D[X]", "MOV #{0},D[X]", [IMM8()], lambda pc, v: bytes([0x3E, v[0] & 0xff, 0x0E]))

    # ---- compare / decrement and branch
    add("CBEQ dir,rel", "CBEQ {0},{1}", [D8(), REL(3)], pre(0x31), (1, rel_at(2)))
    add("CBEQ ,X,rel", "CBEQ ,X,{0}", [REL(3)], pre(0x31, 0x0E), (0, rel_at(2)))
    add("CBEQ X,rel", "CBEQ X,{0}", [REL(3)], pre(0x31, 0x0F), (0, rel_at(2)))
    add("CBEQA #imm,rel", "CBEQA #{0},{1}", [IMM8(), REL(3)], pre(0x41), (1, rel_at(2)))
    add("DBNZ dir,rel", "DBNZ {0},{1}", [D8(), REL(3)], pre(0x3B), (1, rel_at(2)))
    add("DBNZ ,X,rel", "DBNZ ,X,{0}", [REL(3)], pre(0x3B, 0x0E), (0, rel_at(2)))
    add("DBNZA rel", "DBNZA {0}", [REL(2)], pre(0x4B), (0, rel_at(1)))
    add("DBNZX rel", "DBNZX {0}", [REL(3)], pre(0x3B, 0x0F), (0, rel_at(2)))

    # ---- jumps
    for m, op in (("JMP", 0xBC), ("JSR", 0xBD)):
        add(m + " ext", m + " {0}", [Int(0, 0x3fff, rej_lo=False, rej_from=0x10000)],
            lambda pc, v, o=op: bytes([o, v[0] >> 8, v[0] & 0xff]))

    for m, op in INH.items():
        add(m, m, [], pre(op))
    return F


ISAS = [Isa("68RS08", "68RS08", build(), "mot", pcsym="*", slot=8, base=0x1000, offsets=[0, 1, 4], maxaddr=0x3fff,
            golden=[("t_68rs08", {"68rs08": True})])]
