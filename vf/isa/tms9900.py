"""Texas Instruments TMS9900 reference encoder.

Source of truth: TMS9900 Microprocessor Data Manual, section "TMS 9900 instruction set" (formats
I .. IX with their opcode tables) and the Model 990 Computer / TMS9900 Microprocessor Assembly
Language Programmer's Guide (943441-9701).  Written from TI's definition, not from code9900.c.

  general address (T field, 2 bits + 4 bit register):
      00 Rn        workspace register          01 *Rn       workspace register indirect
      10 @a        symbolic (register field 0), the address follows as a word
      10 @a(Rn)    indexed, n = 1..15, the base address follows as a word
      11 *Rn+      workspace register indirect auto-increment
  format I    oooB TdDDDD TsSSSS         dual operand, extension words: source first, then destination
  format II   oooooooo dddddddd          jumps (signed word displacement from PC+2), CRU single bit
  format III  oooooo DDDD TsSSSS         COC CZC XOR (IX: MPY DIV XOP; IV: LDCR STCR with a count in D)
  format V    oooooooo CCCC WWWW         shifts
  format VI   oooooooooo TsSSSS          single operand
  format VII  control, format VIII  ooooooooooo 0 WWWW (+ immediate word)
Words are stored most significant byte first.

Registers may be written Rn, WRn or as a plain number 0..15 (doc/processor-specific-hints.md,
TMS9900); all three spellings are generated.

Excluded by construction:
  * negative symbolic addresses, odd jump targets, register 0 as index (that is the symbolic mode)
  * LDCR/STCR count 0 (TI's assembler takes 0 as 16, AS wants 16 written as 16): the count is generated
    as 1..16, 16 is encoded as 0 as the data manual defines
  * TI's proprietary >hex constants (AS uses Intel syntax here) and the pseudo-instructions NOP / RT
"""
from .common import Form, Int, Enum, Rel, Isa, sx

REGS = ["R%d" % i for i in range(16)] + ["WR%d" % i for i in range(16)] + ["%d" % i for i in range(16)]
IDX = [n for i, n in enumerate(REGS) if i % 16]
IDXV = [i % 16 for i, n in enumerate(REGS) if i % 16]

DUAL = {"SZC": 0x4, "SZCB": 0x5, "S": 0x6, "SB": 0x7, "C": 0x8, "CB": 0x9, "A": 0xA, "AB": 0xB, "MOV": 0xC,
        "MOVB": 0xD, "SOC": 0xE, "SOCB": 0xF}
FMT3 = {"COC": 0x2000, "CZC": 0x2400, "XOR": 0x2800, "MPY": 0x3800, "DIV": 0x3C00}
XOP = 0x2C00
CRUM = {"LDCR": 0x3000, "STCR": 0x3400}
SINGLE = {"BLWP": 0x0400, "B": 0x0440, "X": 0x0480, "CLR": 0x04C0, "NEG": 0x0500, "INV": 0x0540, "INC": 0x0580,
          "INCT": 0x05C0, "DEC": 0x0600, "DECT": 0x0640, "BL": 0x0680, "SWPB": 0x06C0, "SETO": 0x0700,
          "ABS": 0x0740}
JUMPS = {"JMP": 0x10, "JLT": 0x11, "JLE": 0x12, "JEQ": 0x13, "JHE": 0x14, "JGT": 0x15, "JNE": 0x16, "JNC": 0x17,
         "JOC": 0x18, "JNO": 0x19, "JL": 0x1A, "JH": 0x1B, "JOP": 0x1C}
CRUBIT = {"SBO": 0x1D, "SBZ": 0x1E, "TB": 0x1F}
SHIFT = {"SRA": 0x0800, "SRL": 0x0900, "SLA": 0x0A00, "SRC": 0x0B00}
IMMED = {"LI": 0x0200, "AI": 0x0220, "ANDI": 0x0240, "ORI": 0x0260, "CI": 0x0280}
STORE = {"STWP": 0x02A0, "STST": 0x02C0}
IMMONLY = {"LWPI": 0x02E0, "LIMI": 0x0300}
CONTROL = {"IDLE": 0x0340, "RSET": 0x0360, "RTWP": 0x0380, "CKON": 0x03A0, "CKOF": 0x03C0, "LREX": 0x03E0}

MODES = ["R", "*R", "*R+", "@a", "@a(R)"]


def be(*ws):
    return b"".join(bytes([(w >> 8) & 0xff, w & 0xff]) for w in ws)


def mode_ops(mode):
    """-> (operands, text with {} placeholders)"""
    if mode == "R":
        return [Enum(REGS)], "{}"
    if mode == "*R":
        return [Enum(REGS)], "*{}"
    if mode == "*R+":
        return [Enum(REGS)], "*{}+"
    if mode == "@a":
        return [Int(0, 65535, rej_lo=False)], "@{}"
    if mode == "@a(R)":
        return [Int(-32768, 65535), Enum(IDX)], "@{}({})"
    raise ValueError(mode)


def enc_mode(mode, v):
    """-> (T, register field, extension word or None)"""
    if mode == "R":
        return 0, v[0] % 16, None
    if mode == "*R":
        return 1, v[0] % 16, None
    if mode == "*R+":
        return 3, v[0] % 16, None
    if mode == "@a":
        return 2, 0, v[0] & 0xffff
    if mode == "@a(R)":
        return 2, IDXV[v[1]], v[0] & 0xffff
    raise ValueError(mode)


def number(tmpl, start):
    out, k = "", start
    parts = tmpl.split("{}")
    for i, part in enumerate(parts):
        out += part
        if i < len(parts) - 1:
            out += "{%d}" % k
            k += 1
    return out, k


def build():
    F = []

    def add(name, fmt, ops, enc, rel=None):
        F.append(Form(name, fmt, ops, enc, rel))

    # ---- format I
    for m, op in DUAL.items():
        for sm in MODES:
            sops, stxt = mode_ops(sm)
            st, n = number(stxt, 0)
            for dm in MODES:
                dops, dtxt = mode_ops(dm)
                dt, _ = number(dtxt, n)

                def enc(pc, v, op=op, sm=sm, dm=dm, ns=len(sops)):
                    ts, s, sx_ = enc_mode(sm, v[:ns])
                    td, d, dx_ = enc_mode(dm, v[ns:])
                    w = [op << 12 | td << 10 | d << 6 | ts << 4 | s]
                    if sx_ is not None:
                        w.append(sx_)
                    if dx_ is not None:
                        w.append(dx_)
                    return be(*w)
                add("%s %s,%s" % (m, sm, dm), "%s %s,%s" % (m, st, dt), sops + dops, enc)

    # ---- formats III / IX (register destination), IX XOP (number), IV LDCR/STCR (count)
    def src_d(m, op, sm, dop, dname, dval):
        sops, stxt = mode_ops(sm)
        st, n = number(stxt, 0)

        def enc(pc, v, ns=len(sops)):
            ts, s, ext = enc_mode(sm, v[:ns])
            w = [op | dval(v[ns]) << 6 | ts << 4 | s]
            if ext is not None:
                w.append(ext)
            return be(*w)
        add("%s %s,%s" % (m, sm, dname), "%s %s,{%d}" % (m, st, n), sops + [dop], enc)

    for sm in MODES:
        for m, op in FMT3.items():
            src_d(m, op, sm, Enum(REGS), "R", lambda x: x % 16)
        src_d("XOP", XOP, sm, Int(0, 15), "n", lambda x: x)
        for m, op in CRUM.items():
            # the 4-bit count field holds 0 for a transfer of 16 bits
            src_d(m, op, sm, Int(1, 16, rej_lo=False), "cnt", lambda x: x & 15)

    # ---- format VI
    for m, op in SINGLE.items():
        for sm in MODES:
            sops, stxt = mode_ops(sm)
            st, _ = number(stxt, 0)

            def enc(pc, v, op=op, sm=sm):
                ts, s, ext = enc_mode(sm, v)
                w = [op | ts << 4 | s]
                if ext is not None:
                    w.append(ext)
                return be(*w)
            add("%s %s" % (m, sm), "%s %s" % (m, st), sops, enc)

    # ---- format II
    for m, op in JUMPS.items():
        add(m + " rel", m + " {0}", [Rel(-128, 127, 2, scale=2)],
            (lambda op: lambda pc, v: bytes([op, v[0] & 0xff]))(op), (0, lambda b: sx(b[1], 8)))
    for m, op in CRUBIT.items():
        add(m + " disp", m + " {0}", [Int(-128, 127)], (lambda op: lambda pc, v: bytes([op, v[0] & 0xff]))(op))

    # ---- format V; the register is also generated as a plain number with its limits
    for m, op in SHIFT.items():
        add(m + " R,c", m + " {0},{1}", [Enum(REGS), Int(0, 15)],
            (lambda op: lambda pc, v: be(op | v[1] << 4 | v[0] % 16))(op))
        add(m + " n,c", m + " {0},{1}", [Int(0, 15), Int(0, 15)],
            (lambda op: lambda pc, v: be(op | v[1] << 4 | v[0]))(op))

    # ---- format VIII
    for m, op in IMMED.items():
        add(m + " R,imm", m + " {0},{1}", [Enum(REGS), Int(-32768, 65535)],
            (lambda op: lambda pc, v: be(op | v[0] % 16, v[1] & 0xffff))(op))
        add(m + " n,imm", m + " {0},{1}", [Int(0, 15), Int(-32768, 65535)],
            (lambda op: lambda pc, v: be(op | v[0], v[1] & 0xffff))(op))
    for m, op in STORE.items():
        add(m + " R", m + " {0}", [Enum(REGS)], (lambda op: lambda pc, v: be(op | v[0] % 16))(op))
        add(m + " n", m + " {0}", [Int(0, 15)], (lambda op: lambda pc, v: be(op | v[0]))(op))
    for m, op in IMMONLY.items():
        add(m + " imm", m + " {0}", [Int(0, 65535, rej_lo=False)],
            (lambda op: lambda pc, v: be(op, v[0] & 0xffff))(op))

    # ---- format VII
    for m, op in CONTROL.items():
        add(m, m, [], (lambda op: lambda pc, v: be(op))(op))
    return F


# The golden cross-check of vf.isa.selftest reads word tokens of the listing as little endian; this
# family is big endian, so the table is not registered there (golden=None) and cross-checked by
# `python3-vt -m vf.isa.tms9900 [-v]` instead, which runs the same comparison with big-endian tokens.
GOLDEN = [("t_9900", {"tms9900": True})]

ISAS = [Isa("TMS9900", "TMS9900", build(), "intel", pcsym="$", gran=1, slot=8, base=0x1000, offsets=[0, 2])]


def golden_check(verbose=False):
    from . import selftest, listing

    def be_tokens(toks, gran):
        b = bytearray()
        for t in toks:
            if len(t) % 2:
                raise ValueError("odd token " + t)
            b += bytes.fromhex(t)
        return bytes(b)
    isa = Isa("TMS9900", "TMS9900", ISAS[0].forms, "intel", golden=GOLDEN)
    saved = listing.tokens_to_bytes
    listing.tokens_to_bytes = be_tokens
    try:
        return selftest.check_isa(isa, verbose)
    finally:
        listing.tokens_to_bytes = saved


if __name__ == "__main__":
    import sys
    from .. import build as _build
    _build.build("plain")
    r = golden_check("-v" in sys.argv)
    print("TMS9900  golden t_9900: %d instruction lines, %d matched (%d/%d forms), %d unmodelled, %d MISMATCHED"
          % (r["lines"], r["matched"], len(r["forms_seen"]), len(ISAS[0].forms), r["unmodelled"], len(r["mismatched"])))
    for m in r["mismatched"][:10]:
        print("    " + m)
    sys.exit(1 if r["mismatched"] else 0)
