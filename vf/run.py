"""Sandboxed subprocess runner for asl and its tools.

Every run: fresh working directory supplied by the caller, stdin=/dev/null, fixed environment
(LANG/LC_ALL=C unless overridden, AS_MSGPATH=<build dir>, no ASCMD/P2BINCMD/...), RLIMIT_CPU /
RLIMIT_FSIZE / RLIMIT_CORE, wall-clock timeout that only ever classifies a run as inconclusive.
"""
import os, resource, shutil, signal, subprocess, tempfile, time
from . import build

_SHM = "/dev/shm" if os.path.isdir("/dev/shm") and os.access("/dev/shm", os.W_OK) else None


class Result:
    __slots__ = ("status", "signal", "stdout", "stderr", "timed_out", "cpu", "wall", "argv")

    def __init__(self, status, sig, out, err, timed_out, cpu, wall, argv):
        self.status, self.signal, self.stdout, self.stderr = status, sig, out, err
        self.timed_out, self.cpu, self.wall, self.argv = timed_out, cpu, wall, argv

    @property
    def out(self):
        return self.stdout.decode("latin-1")

    @property
    def err(self):
        return self.stderr.decode("latin-1")

    def brief(self, n=400):
        return {"argv": self.argv, "status": self.status, "signal": self.signal,
                "timed_out": self.timed_out, "stdout": self.out[-n:], "stderr": self.err[-n:]}


def mkwork(prefix="vf"):
    return tempfile.mkdtemp(prefix=prefix + "-", dir=_SHM)


def rmwork(d):
    shutil.rmtree(d, ignore_errors=True)


class Work:
    """context manager: fresh scratch directory, removed on exit"""

    def __init__(self, prefix="vf"):
        self.prefix = prefix

    def __enter__(self):
        self.d = mkwork(self.prefix)
        return self.d

    def __exit__(self, *a):
        rmwork(self.d)


def base_env(flavour="plain", extra=None):
    env = {
        "PATH": "/usr/bin:/bin",
        "LANG": "C",
        "LC_ALL": "C",
        "AS_MSGPATH": build.bdir(flavour),
        "HOME": "/nonexistent",
        "ASAN_OPTIONS": "detect_leaks=0:abort_on_error=0:exitcode=77:allocator_may_return_null=1",
        "UBSAN_OPTIONS": "print_stacktrace=1:halt_on_error=1",
    }
    if extra:
        for k, v in extra.items():
            if v is None:
                env.pop(k, None)
            else:
                env[k] = v
    return env


def run(argv, cwd, flavour="plain", env=None, timeout=30.0, cpu=20, fsize=1 << 30, stdin=None):
    """argv[0] may be a bare tool name (asl, p2bin, ...) resolved in the flavour's build dir"""
    argv = list(argv)
    if "/" not in argv[0]:
        argv[0] = build.exe(flavour, argv[0])
    e = base_env(flavour, env)

    def pre():
        resource.setrlimit(resource.RLIMIT_CPU, (cpu, cpu + 1))
        resource.setrlimit(resource.RLIMIT_FSIZE, (fsize, fsize))
        resource.setrlimit(resource.RLIMIT_CORE, (0, 0))
        os.setsid()

    t0 = time.time()
    r0 = resource.getrusage(resource.RUSAGE_CHILDREN)
    for attempt in range(40):
        try:
            p = subprocess.Popen(argv, cwd=cwd, env=e, stdin=subprocess.DEVNULL if stdin is None else subprocess.PIPE,
                                 stdout=subprocess.PIPE, stderr=subprocess.PIPE, preexec_fn=pre)
            break
        except (PermissionError, FileNotFoundError, OSError) as ex:
            # the executable is being replaced by a concurrent (re)build of the same flavour: wait for the linker
            if attempt == 39 or getattr(ex, "errno", None) not in (13, 2, 26):
                raise
            time.sleep(0.5)
    timed_out = False
    try:
        out, err = p.communicate(input=stdin, timeout=timeout)
    except subprocess.TimeoutExpired:
        timed_out = True
        try:
            os.killpg(p.pid, signal.SIGKILL)
        except ProcessLookupError:
            pass
        out, err = p.communicate()
    r1 = resource.getrusage(resource.RUSAGE_CHILDREN)
    cpu_used = (r1.ru_utime + r1.ru_stime) - (r0.ru_utime + r0.ru_stime)
    rc = p.returncode
    sig = -rc if rc < 0 else 0
    if sig in (signal.SIGXCPU, signal.SIGXFSZ):
        # killed by this harness's own resource limits (CPU time under load, output size): a budget was hit,
        # which every check treats as inconclusive; the signal number stays visible for the C03 judge
        timed_out = True
    return Result(rc if rc >= 0 else None, sig, out, err, timed_out, cpu_used, time.time() - t0,
                  [os.path.basename(argv[0])] + argv[1:])


def write_files(d, files):
    """files: {relative name: bytes|str}"""
    for name, data in files.items():
        path = os.path.join(d, name)
        os.makedirs(os.path.dirname(path), exist_ok=True) if os.path.dirname(name) else None
        if isinstance(data, str):
            data = data.encode("latin-1")
        with open(path, "wb") as f:
            f.write(data)


def read(d, name):
    try:
        with open(os.path.join(d, name), "rb") as f:
            return f.read()
    except FileNotFoundError:
        return None
