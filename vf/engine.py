"""Shared engine: sharded Hypothesis search, known-finding handling, replay, evidence.

A check module (checks/cNN_*.py) provides

  ID, RULE, LEVEL_NOTE(optional), ASSUMPTIONS (list of str)
  FLAVOURS      = ("plain",) or ("plain","asan")    builds needed
  budget(tier)  -> dict(examples=<hypothesis cases in total>, shards=<n>)
  strategy(tier)-> hypothesis strategy producing a JSON-serialisable *case*
  execute(case) -> Outcome
  fixed_cases(tier) -> list of cases always executed first (boundary family, regression inputs,
                       exhaustive enumerations); optional
  KNOWN         -> {finding-id: (text, predicate(case, outcome) -> bool)}; optional
  show(case)    -> short printable form for evidence samples; optional

Every random choice is made by Hypothesis (seeded per shard from VERIF_SEED).  The final verdict
for a failing case is taken by re-executing it three times outside Hypothesis.
"""
import base64, collections, hashlib, importlib, json, multiprocessing, os, sys, time, traceback

ROOT = os.path.dirname(os.path.dirname(os.path.abspath(__file__)))
# evidence and replay files go to /verif; development runs against scratch trees (seeded defects, author
# worktrees) redirect them with VERIF_OUT so that committed evidence always stems from /repo itself
OUT = os.environ.get("VERIF_OUT") or ROOT
DEFAULT_SEED = 20261001


class Outcome:
    def __init__(self, ok=True, why="", nontrivial=None, classes=(), detail=None, inconclusive=False,
                 discarded=False):
        self.ok = ok
        self.why = why
        self.nontrivial = nontrivial      # key string (distinctness) or None when trivial
        self.classes = list(classes)
        self.detail = detail or {}
        self.inconclusive = inconclusive
        self.discarded = discarded


def ok(nontrivial=None, classes=(), **detail):
    return Outcome(True, "", nontrivial, classes, detail)


def bad(why, nontrivial=None, classes=(), **detail):
    return Outcome(False, why, nontrivial, classes, detail)


def inconclusive(why, classes=(), **detail):
    return Outcome(True, why, None, list(classes) + ["inconclusive"], detail, inconclusive=True)


def discarded(why, classes=()):
    return Outcome(True, why, None, list(classes) + ["discarded:" + why], {}, discarded=True)


def digest(s):
    if not isinstance(s, (bytes, bytearray)):
        s = str(s).encode("utf-8", "replace")
    return hashlib.sha1(s).hexdigest()[:16]


def seed_from_env():
    try:
        s = int(os.environ.get("VERIF_SEED", "0") or 0)
    except ValueError:
        s = 0
    return s if s != 0 else DEFAULT_SEED


def derive(seed, check_id, shard):
    h = hashlib.sha256(("%d/%s/%d" % (seed, check_id, shard)).encode()).digest()
    return int.from_bytes(h[:8], "big")


# ------------------------------------------------------------------ known findings

def load_known(prop):
    """returns (active finding ids for prop, fixed lines for prop)"""
    active, fixed = {}, []
    path = os.path.join(ROOT, "KNOWN_FINDINGS.txt")
    if os.path.exists(path):
        for line in open(path):
            line = line.strip()
            if not line or line.startswith("#"):
                continue
            if line.startswith("finding:"):
                toks = line[len("finding:"):].split(None, 2)
                kv = dict(t.split("=", 1) for t in toks[:2] if "=" in t)
                if kv.get("property") == prop and "id" in kv:
                    active[kv["id"]] = toks[2] if len(toks) > 2 else ""
            elif line.startswith("fixed:"):
                if ("property=" + prop) in line:
                    fixed.append(line)
    # development aid only (never set by registered commands): VERIF_KNOWN_EXTRA="C06:id,C06:id2"
    for tok in (os.environ.get("VERIF_KNOWN_EXTRA") or "").split(","):
        if ":" in tok:
            pid, kid = tok.split(":", 1)
            if pid.strip() == prop:
                active.setdefault(kid.strip(), "(development: VERIF_KNOWN_EXTRA)")
    return active, fixed


def match_known(mod, active, case, out):
    kn = getattr(mod, "KNOWN", {})
    for kid in active:
        if kid in kn:
            try:
                if kn[kid][1](case, out):
                    return kid
            except Exception:
                continue
    return None


# ------------------------------------------------------------------ shard worker

class Shard:
    def __init__(self):
        self.evaluations = 0
        self.shrink_runs = 0
        self.nontrivial = set()
        self.classes = collections.Counter()
        self.known = collections.Counter()
        self.inconclusive = 0
        self.discarded = 0
        self.samples = []
        self.failure = None
        self.error = None

    def record(self, mod, case, out, want_sample):
        self.evaluations += 1
        if out.inconclusive:
            self.inconclusive += 1
        if out.discarded:
            self.discarded += 1
        for c in out.classes:
            self.classes[c] += 1
        if out.nontrivial is not None:
            d = digest(out.nontrivial)
            if d not in self.nontrivial:
                self.nontrivial.add(d)
                if want_sample and len(self.samples) < 4:
                    self.samples.append(show(mod, case))

    def export(self):
        return dict(evaluations=self.evaluations, shrink_runs=self.shrink_runs,
                    nontrivial=sorted(self.nontrivial), classes=dict(self.classes),
                    known=dict(self.known), inconclusive=self.inconclusive, discarded=self.discarded,
                    samples=self.samples, failure=self.failure, error=self.error)


def show(mod, case):
    f = getattr(mod, "show", None)
    try:
        s = f(case) if f else case
    except Exception:
        s = case
    txt = json.dumps(s, default=str)
    if len(txt) > 1500:
        return txt[:1500] + "...(truncated)"
    return s


def load_check(cid):
    for fn in sorted(os.listdir(os.path.join(ROOT, "checks"))):
        if fn.lower().startswith(cid.lower() + "_") and fn.endswith(".py"):
            return importlib.import_module("checks." + fn[:-3])
    raise SystemExit("no check module for " + cid)


def _run_shard(args):
    cid, tier, seed, idx, nshards, examples, fixed_slice = args
    sh = Shard()
    try:
        mod = load_check(cid)
        active, _ = load_known(cid)
        # fixed cases first (deterministic, no library involved)
        for case in fixed_slice:
            out = mod.execute(case)
            sh.record(mod, case, out, idx == 0)
            if not out.ok and not out.inconclusive:
                k = match_known(mod, active, case, out)
                if k:
                    sh.known[k] += 1
                    continue
                sh.failure = dict(case=case, why=out.why, detail=out.detail, origin="fixed", shard=idx)
                return sh.export()
        if examples <= 0:
            return sh.export()
        from hypothesis import given, settings, seed as hseed, HealthCheck, Phase
        last = {}
        phase = {"gen": True}

        @settings(max_examples=examples, database=None, deadline=None, derandomize=False,
                  suppress_health_check=list(HealthCheck), report_multiple_bugs=False,
                  phases=[Phase.generate, Phase.shrink] if getattr(mod, "SHRINK", True) else [Phase.generate],
                  print_blob=False)
        @hseed(derive(seed, cid, idx))
        @given(mod.strategy(tier))
        def prop(case):
            out = mod.execute(case)
            if "fail" in last:
                sh.shrink_runs += 1
            else:
                sh.record(mod, case, out, True)
            if not out.ok and not out.inconclusive:
                k = match_known(mod, active, case, out)
                if k:
                    if "fail" not in last:
                        sh.known[k] += 1
                    return
                last["fail"] = dict(case=case, why=out.why, detail=out.detail, origin="generated", shard=idx)
                raise AssertionError(out.why)

        try:
            prop()
        except AssertionError:
            sh.failure = last.get("fail")
            if sh.failure is None:
                sh.error = traceback.format_exc()
        except Exception:
            if "fail" in last:
                sh.failure = last["fail"]
            else:
                sh.error = traceback.format_exc()
    except Exception:
        sh.error = traceback.format_exc()
    return sh.export()


# ------------------------------------------------------------------ driver

def write_evidence(mod, tier, seed, cov, wall, violations, extra_assumptions=()):
    ev = dict(property_id=mod.ID, tier=tier, seed=seed, level="exploration", coverage=cov,
              assumptions=list(getattr(mod, "ASSUMPTIONS", [])) + list(extra_assumptions),
              wall_s=round(wall, 2), violations=violations)
    os.makedirs(os.path.join(OUT, "evidence"), exist_ok=True)
    path = os.path.join(OUT, "evidence", mod.ID + ".json")
    tmp = path + ".tmp"
    with open(tmp, "w") as f:
        json.dump(ev, f, indent=1, default=str)
    os.replace(tmp, path)
    return path


def save_replay(mod, failure, seed, tier):
    d = os.path.join(OUT, "replays", mod.ID)
    os.makedirs(d, exist_ok=True)
    body = dict(property=mod.ID, case=failure["case"], why=failure["why"], detail=failure.get("detail"),
                seed=seed, tier=tier, shard=failure.get("shard"), origin=failure.get("origin"))
    txt = json.dumps(body, indent=1, default=str)
    path = os.path.join(d, digest(json.dumps(failure["case"], sort_keys=True, default=str)) + ".json")
    with open(path, "w") as f:
        f.write(txt)
    return path


def confirm(mod, active, case, times=3):
    """re-execute outside the library; returns (n_fail, last outcome)"""
    nfail, out = 0, None
    for _ in range(times):
        out = mod.execute(case)
        if not out.ok and not out.inconclusive and not match_known(mod, active, case, out):
            nfail += 1
    return nfail, out


def main_check(cid, tier, replay=None):
    from . import build
    t0 = time.time()
    mod = load_check(cid)
    seed = seed_from_env()
    for fl in getattr(mod, "FLAVOURS", ("plain",)):
        build.build(fl)
    if hasattr(mod, "prepare"):
        mod.prepare(tier)
    active, fixed_lines = load_known(cid)

    if replay:
        body = json.load(open(replay))
        case = body["case"]
        nfail, out = confirm(mod, active, case, 1)
        if nfail:
            print("replay fails: " + out.why)
            print(json.dumps(out.detail, indent=1, default=str)[:4000])
            print("VIOLATION property=%s replay=%s" % (cid, os.path.abspath(replay)))
            return 1
        k = match_known(mod, active, case, out) if not out.ok else None
        if k:
            print("KNOWN-FINDING: property=%s id=%s %s" % (cid, k, active[k]))
        print("replay passes" if out.ok else "replay fails only as a known finding")
        return 0

    b = mod.budget(tier)
    nshards = int(os.environ.get("VERIF_SHARDS", b.get("shards", 16)))
    examples = int(b.get("examples", 0))
    fixed = list(mod.fixed_cases(tier)) if hasattr(mod, "fixed_cases") else []
    per = [examples // nshards + (1 if i < examples % nshards else 0) for i in range(nshards)]
    jobs = [(cid, tier, seed, i, nshards, per[i], fixed[i::nshards]) for i in range(nshards)]
    ctx = multiprocessing.get_context("fork")
    with ctx.Pool(nshards) as pool:
        results = pool.map(_run_shard, jobs, chunksize=1)

    tot = Shard()
    nontriv = set()
    failures, errors = [], []
    for r in results:
        tot.evaluations += r["evaluations"]
        tot.shrink_runs += r["shrink_runs"]
        nontriv.update(r["nontrivial"])
        tot.classes.update(r["classes"])
        tot.known.update(r["known"])
        tot.inconclusive += r["inconclusive"]
        tot.discarded += r["discarded"]
        for s in r["samples"]:
            if len(tot.samples) < 5:
                tot.samples.append(s)
        if r["failure"]:
            failures.append(r["failure"])
        if r["error"]:
            errors.append(r["error"])

    violations, unrepro = [], 0
    seen = set()
    for f in failures:
        key = digest(json.dumps(f["case"], sort_keys=True, default=str))
        if key in seen:
            continue
        seen.add(key)
        nfail, out = confirm(mod, active, f["case"], 3)
        if nfail == 3:
            f["why"], f["detail"] = out.why, out.detail
            violations.append(f)
        else:
            unrepro += 1

    cov = dict(evaluations=tot.evaluations, distinct_nontrivial=len(nontriv), rule=mod.RULE,
               samples=tot.samples or [show(mod, c) for c in fixed[:3]],
               classes=dict(sorted(tot.classes.items(), key=lambda kv: -kv[1])[:200]),
               fixed_cases=len(fixed), generated_cases=tot.evaluations - len(fixed) if tot.evaluations >= len(fixed) else 0,
               shrink_executions=tot.shrink_runs, excluded_known=dict(tot.known),
               inconclusive=tot.inconclusive, discarded=tot.discarded, unreproduced=unrepro,
               shards=nshards, engine="hypothesis %s, %d shards" % (_hyp_version(), nshards))
    if hasattr(mod, "coverage_extra"):
        try:
            cov.update(mod.coverage_extra(tier, dict(tot.classes)))
        except Exception:
            pass
    write_evidence(mod, tier, seed, cov, time.time() - t0, len(violations))

    for kid, text in active.items():
        print("KNOWN-FINDING: property=%s id=%s %s (matched %d cases in this run)"
              % (cid, kid, text, tot.known.get(kid, 0)))
    print("%s %s: %d cases (%d fixed), %d distinct non-trivial, %d inconclusive, %d discarded, %.1fs"
          % (cid, tier, tot.evaluations, len(fixed), len(nontriv), tot.inconclusive, tot.discarded,
             time.time() - t0))
    if errors:
        sys.stderr.write("HARNESS-ERROR in %s:\n%s\n" % (cid, errors[0]))
        return 2
    if violations:
        for f in violations:
            path = save_replay(mod, f, seed, tier)
            print("  why: " + f["why"][:600])
            print("VIOLATION property=%s replay=%s" % (cid, path))
        return 1
    return 0


def _hyp_version():
    try:
        import hypothesis
        return hypothesis.__version__
    except Exception:
        return "?"


def b64(b):
    return base64.b64encode(b).decode("ascii")


def unb64(s):
    return base64.b64decode(s)
