"""development aid: re-execute the cases saved by vf.scan (python3-vt -m vf.rejudge C03)"""
import sys, json
from . import engine, build
cid = sys.argv[1]
mod = engine.load_check(cid)
for fl in getattr(mod, "FLAVOURS", ("plain",)):
    build.build(fl)
d = json.load(open("/tmp/scan_%s.json" % cid))
for k, v in sorted(d.items()):
    out = mod.execute(v["case"])
    print("%-70s %s" % (k[:70], "still fails: " + out.why[:90] if not out.ok else "ok"))
