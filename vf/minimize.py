"""development aid: greedy minimisation of a C03 replay case preserving the failure signature
(python3-vt -m vf.minimize replays/C03/x.json)"""
import sys, json, copy
from . import engine

mod = engine.load_check("C03")


def sig(case):
    out = mod.execute(case)
    return None if out.ok else out.detail.get("sig")


def main():
    b = json.load(open(sys.argv[1]))
    case = b["case"]
    want = sig(case)
    print("signature:", want)
    if want is None:
        return
    changed = True
    while changed:
        changed = False
        if case["kind"] == "stmt":
            for i in range(len(case["lines"])):
                c = copy.deepcopy(case)
                del c["lines"][i]
                if sig(c) == want:
                    case, changed = c, True
                    break
            if not changed and case.get("opts"):
                for i in range(len(case["opts"])):
                    c = copy.deepcopy(case)
                    del c["opts"][i]
                    if sig(c) == want:
                        case, changed = c, True
                        break
            if not changed:
                # drop arguments one by one
                for i, ln in enumerate(case["lines"]):
                    parts = ln.split("\t")
                    if len(parts) >= 3 and "," in parts[2]:
                        args = parts[2].split(",")
                        for j in range(len(args)):
                            c = copy.deepcopy(case)
                            c["lines"][i] = "\t".join(parts[:2] + [",".join(args[:j] + args[j + 1:])])
                            if sig(c) == want:
                                case, changed = c, True
                                break
                    if changed:
                        break
        elif case["kind"] in ("mut", "tool"):
            key = "ops" if case["kind"] == "mut" else "edits"
            for i in range(len(case.get(key, []))):
                c = copy.deepcopy(case)
                del c[key][i]
                if sig(c) == want:
                    case, changed = c, True
                    break
    print(json.dumps(case, indent=1)[:3000])


if __name__ == "__main__":
    main()
