"""Variants of the golden programs: line-level edits (delete / duplicate / swap neighbours / move) that often
keep a program free of errors while changing addresses, forward distances and the order of statements.  The
checks that use the golden corpus as their program domain (C16..C19) draw some of their programs from here and
discard a variant whose reference run reports errors."""
import re
from . import corpus


def ops_strategy(d, nlines_hint=200):
    """1-3 edits; positions are reduced modulo the number of lines when they are applied"""
    out = []
    for _ in range(d.weighted([(5, 1), (3, 2), (2, 3)])):
        k = d.weighted([(4, "del"), (3, "dup"), (2, "swap"), (1, "move"), (1, "delblock")])
        out.append([k, d.int(0, 4000), d.int(1, 12)])
    return out


def apply(src, ops):
    nl = b"\r\n" if b"\r\n" in src else b"\n"
    lines = src.split(nl)
    for kind, a, b in ops:
        if len(lines) < 3:
            break
        i = a % len(lines)
        if kind == "del":
            del lines[i]
        elif kind == "dup":
            lines.insert(i, lines[i])
        elif kind == "swap":
            j = (i + 1) % len(lines)
            lines[i], lines[j] = lines[j], lines[i]
        elif kind == "move":
            ln = lines.pop(i)
            lines.insert((i + b * 3) % (len(lines) + 1), ln)
        elif kind == "delblock":
            del lines[i:i + b]
    return nl.join(lines)


def load(test, ops):
    """a corpus.load() style dict for the variant"""
    t = dict(corpus.load(test))
    t["src"] = apply(t["src"], ops)
    t["ori"] = None
    t["variant"] = True
    return t


NUM_RE = re.compile(rb"(?<![\w.$#'\"])(\$[0-9A-Fa-f]+|[0-9][0-9A-Fa-f]*[hH]|0x[0-9A-Fa-f]+|[0-9]+)(?![\w.'\"])")
POOL = [0x20, 0x40, 0x44, 0x5f, 0x60, 0x7e, 0x7f, 0x80, 0xbf, 0xc0, 0xff, 0x100, 0x1ff, 0x7fff, 0x8000, 0xffff, 1, 2, 3]


def lit_strategy(d):
    """1-4 edits [which literal, how, value]"""
    return [[d.int(0, 5000), d.weighted([(4, "pool"), (2, "inc"), (2, "dec"), (1, "dbl"), (1, "half")]),
             d.choice(POOL)] for _ in range(d.weighted([(4, 1), (3, 2), (2, 3), (1, 4)]))]


def perturb_literals(src, edits):
    """replace numeric literals outside comments by other values in the same notation"""
    lines = src.split(b"\n")
    spots = []
    for li, ln in enumerate(lines):
        code = ln.split(b";", 1)[0]
        if b"'" in code or b'"' in code:
            continue
        f = code.split(None, 1)
        if len(f) < 2 and not code[:1].isspace():
            continue
        for m in NUM_RE.finditer(code):
            if m.start() > 0 and code[:m.start()].strip():      # not a label / first field
                spots.append((li, m.start(), m.end()))
    if not spots:
        return src
    done = set()
    for which, how, val in edits:
        li, a, b = spots[which % len(spots)]
        if li in done:
            continue
        done.add(li)
        tok = lines[li][a:b]
        try:
            if tok.startswith(b"$"):
                old, fmt = int(tok[1:], 16), "$%x"
            elif tok[-1:] in b"hH":
                old, fmt = int(tok[:-1], 16), "0%xh"
            elif tok.lower().startswith(b"0x"):
                old, fmt = int(tok[2:], 16), "0x%x"
            else:
                old, fmt = int(tok, 10), "%d"
        except ValueError:
            continue
        new = {"pool": val, "inc": old + 1, "dec": max(0, old - 1), "dbl": old * 2, "half": old // 2}[how]
        lines[li] = lines[li][:a] + (fmt % new).encode() + lines[li][b:]
    return b"\n".join(lines)
