"""Variants of the golden programs: line-level edits (delete / duplicate / swap neighbours / move) that often
keep a program free of errors while changing addresses, forward distances and the order of statements.  The
checks that use the golden corpus as their program domain (C16..C19) draw some of their programs from here and
discard a variant whose reference run reports errors."""
from . import corpus


def ops_strategy(d, nlines_hint=200):
    """1-3 edits; positions are reduced modulo the number of lines when they are applied"""
    out = []
    for _ in range(d.weighted([(5, 1), (3, 2), (2, 3)])):
        k = d.weighted([(4, "del"), (3, "dup"), (2, "swap"), (1, "move"), (1, "delblock")])
        out.append([k, d.int(0, 4000), d.int(1, 12)])
    return out


def apply(src, ops):
    nl = b"\r\n" if b"\r\n" in src else b"\n"
    lines = src.split(nl)
    for kind, a, b in ops:
        if len(lines) < 3:
            break
        i = a % len(lines)
        if kind == "del":
            del lines[i]
        elif kind == "dup":
            lines.insert(i, lines[i])
        elif kind == "swap":
            j = (i + 1) % len(lines)
            lines[i], lines[j] = lines[j], lines[i]
        elif kind == "move":
            ln = lines.pop(i)
            lines.insert((i + b * 3) % (len(lines) + 1), ln)
        elif kind == "delblock":
            del lines[i:i + b]
    return nl.join(lines)


def load(test, ops):
    """a corpus.load() style dict for the variant"""
    t = dict(corpus.load(test))
    t["src"] = apply(t["src"], ops)
    t["ori"] = None
    t["variant"] = True
    return t
