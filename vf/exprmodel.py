"""Reference evaluator and renderer for the formula language of AS (doc/assembler-usage.md,
chapter "Formula Expressions").  Written from the manual, independent of asl's sources.

Expression trees (JSON-serialisable lists):

  ["i", v, pref, flags]   integer literal, 0 <= v <= 2^63-1; pref selects one of the notations that are
                          unambiguous in the current notation state; flags: 1 upper-case digits,
                          2 upper-case marker letter, 4 one superfluous leading zero (marked notations)
  ["min"]                 -2^63, spelled (-9223372036854775807-1)
  ["f", text]             floating point literal, text in the manual's form digits.digits[E[-]digits]
  ["s", [[code, esc]..], q]   string literal; esc 0 = raw character, 1.. = escape spelling; q 1 = single quotes
  ["y", name]             symbol defined by EQU/SET earlier in the program, or TRUE/FALSE/CONSTPI
  ["n", x]                unary minus
  ["u", op, x]            "~" binary NOT, "~~" logical NOT
  ["b", op, l, r, sp]     binary operator, sp = spacing style 0..3
  ["c", NAME, [args], cs] built-in function call, cs = spelling of the name (0 upper, 1 lower, 2 capitalised)
  ["v", x, cs]            VAL("<rendering of x>")
  ["p", x]                redundant parentheses

evaluate() returns ("i", int) | ("f", float, abs_err) | ("s", bytes) or raises
  Undefined  - the manual makes the operation an error (division by zero, domain, ill-typed)
  Excluded   - the manual does not settle the value (stated exclusions); the case is not judged
"""
import math, re, struct

_EXPLIKE = re.compile(r"(^|[^0-9A-Za-z_.$@%'])[0-9][0-9.]*[eE]$")

M64 = (1 << 64) - 1
MAXI = (1 << 63) - 1
MINI = -(1 << 63)


class Undefined(Exception):
    pass


class Excluded(Exception):
    pass


def wrap(v):
    v &= M64
    return v - (1 << 64) if v >> 63 else v


# rank table of the manual ("Operators Predefined by AS"); higher rank = evaluated later
RANK = {"<>": 14, "!=": 14, ">=": 14, "<=": 14, "<": 14, ">": 14, "=": 14, "==": 14,
        "!!": 13, "||": 12, "&&": 11, "-": 10, "+": 10, "#": 9, "/": 9, "*": 9, "^": 8,
        "!": 7, "|": 6, "&": 5, "><": 4, ">>": 3, "<<": 3}
URANK = {"~~": 2, "~": 1}
NEG_RANK = 10            # unary minus: the "-" row of the table
CMP = ("<>", "!=", ">=", "<=", "<", ">", "=", "==")
INTONLY = ("!!", "||", "&&", "#", "!", "|", "&", "><", ">>", "<<")
ARITH = ("+", "-", "*", "/", "^")


def ulp(x):
    x = abs(x)
    if x == 0.0 or x < 2.3e-308:
        return 5e-324
    return math.ulp(x)


def F(v, err=0.0):
    if isinstance(v, complex) or v != v or v in (math.inf, -math.inf):
        raise Excluded("float result not finite")
    if v != 0.0 and (abs(v) > 1e300 or abs(v) < 1e-300):
        raise Excluded("float result near the limits of the format")
    return ("f", float(v), float(err))


def str2int(b):
    """'A'==$41, 'AB'==$4142, 'ABCD'==$41424344 (manual: multi character constants)"""
    if 1 <= len(b) <= 4:
        return int.from_bytes(b, "big")
    raise Undefined("string of %d characters where an integer is expected" % len(b))


def as_int(v):
    if v[0] == "i":
        return v[1]
    if v[0] == "s":
        return str2int(v[1])
    raise Undefined("floating point operand where an integer is required")


def as_float(v):
    """(value, err) of an int or float operand"""
    if v[0] == "f":
        return v[1], v[2]
    if v[0] == "i":
        return float(v[1]), 0.0   # conversion rounds to nearest in C and in Python
    raise Excluded("string operand in floating point arithmetic")


# ------------------------------------------------------------------------- functions

TIER_B_REL = 1e-12
TIER_B_ABS = 1e-15


def _acot(x):
    return math.atan2(1.0, x)


def _coth(x):
    return 1.0 / math.tanh(x)


def _cot(x):
    return math.cos(x) / math.sin(x)


# name: (reference, domain(x) -> None | "undef" | "excl", tolerance class: 0 exact, "A" 4 ulp, "B")
def _dom_any(lim):
    return lambda x: "excl" if abs(x) > lim else None


FLOATFUNCS = {
    "SQRT": (math.sqrt, lambda x: "undef" if x < 0 else None, 0),
    "SIN": (math.sin, _dom_any(1e6), "A"),
    "COS": (math.cos, _dom_any(1e6), "A"),
    "TAN": (math.tan, lambda x: "excl" if abs(x) > 1e6 or abs(math.cos(x)) < 1e-6 else None, "A"),
    "COT": (_cot, lambda x: "undef" if x == 0 else ("excl" if abs(x) > 1e6 or abs(math.sin(x)) < 1e-6 else None), "B"),
    "ASIN": (math.asin, lambda x: "undef" if abs(x) > 1 else None, "A"),
    "ACOS": (math.acos, lambda x: "undef" if abs(x) > 1 else None, "A"),
    "ATAN": (math.atan, _dom_any(1e15), "A"),
    "ACOT": (_acot, lambda x: "excl" if x < 0 or x > 1e15 else None, "B"),
    "EXP": (math.exp, _dom_any(680), "A"),
    "ALOG": (lambda x: math.pow(10.0, x), _dom_any(290), "B"),
    "ALD": (lambda x: math.pow(2.0, x), _dom_any(990), "B"),
    "SINH": (math.sinh, _dom_any(680), "A"),
    "COSH": (math.cosh, _dom_any(680), "A"),
    "TANH": (math.tanh, _dom_any(680), "A"),
    "COTH": (_coth, lambda x: "undef" if x == 0 else ("excl" if abs(x) > 680 or abs(x) < 1e-6 else None), "B"),
    "LN": (math.log, lambda x: "undef" if x <= 0 else None, "A"),
    "LOG": (math.log10, lambda x: "undef" if x <= 0 else None, "A"),
    "LD": (math.log2, lambda x: "undef" if x <= 0 else None, "B"),
    "ASINH": (math.asinh, _dom_any(1e7), "B"),
    "ACOSH": (math.acosh, lambda x: "undef" if x < 1 else ("excl" if x > 1e7 or 1 < x < 1.001 else None), "B"),
    "ATANH": (math.atanh, lambda x: "undef" if x >= 1 else ("excl" if x <= -1 or abs(x) > 0.999 else None), "B"),
    "ACOTH": (lambda x: math.atanh(1.0 / x),
              lambda x: "excl" if x < -1 or 1 < x < 1.001 or x > 1e7 else ("undef" if x <= 1 else None), "B"),
}
INTFUNCS = ("BITCNT", "FIRSTBIT", "LASTBIT", "BITPOS", "TOUPPER", "TOLOWER")
STRFUNCS = ("UPSTRING", "LOWSTRING", "STRLEN", "SUBSTR", "CHARFROMSTR", "STRSTR", "VAL")
ALLFUNCS = tuple(FLOATFUNCS) + INTFUNCS + STRFUNCS + ("INT", "SGN", "ABS", "EXPRTYPE")


def _tol(cls, ref):
    if cls == 0:
        return 0.0
    if cls == "A":
        return 4 * ulp(ref)
    return max(TIER_B_REL * abs(ref), TIER_B_ABS)


def float_func(name, x, ex):
    fn, dom, cls = FLOATFUNCS[name]
    d = dom(x)
    if d is None and ex > 0:
        # the argument itself is only known within +-ex: the domain decision must not depend on it
        if dom(x - ex) is not None or dom(x + ex) is not None:
            raise Excluded("inexact argument at a domain border")
    if d == "undef":
        if ex > 0 and dom(x - ex) != dom(x + ex):
            raise Excluded("inexact argument at a domain border")
        raise Undefined("%s: argument outside the documented domain" % name)
    if d == "excl":
        raise Excluded("%s: argument range not judged" % name)
    try:
        ref = fn(x)
        err = _tol(cls, ref)
        if ex > 0:
            err += max(abs(fn(x - ex) - ref), abs(fn(x + ex) - ref)) * 1.01 + ulp(ref)
    except (OverflowError, ValueError, ZeroDivisionError):
        raise Excluded("%s: reference not computable" % name)
    return F(ref, err)


def need_str(v, name):
    if v[0] != "s":
        raise Undefined("%s: string argument expected" % name)
    return v[1]


def need_int_arg(v, name):
    """integer argument of a function: integer, or a character string converted on the fly"""
    if v[0] == "i":
        return v[1]
    if v[0] == "s":
        return str2int(v[1])
    raise Undefined("%s: integer argument expected, got floating point" % name)


def ascii_only(b, what):
    if any(c > 126 or c < 1 for c in b):
        raise Excluded(what + " on characters outside 7-bit ASCII")


def call(name, args, evalstr):
    n = len(args)

    def argc(k):
        if n != k:
            raise Undefined("%s: wrong number of arguments" % name)
    if name in FLOATFUNCS:
        argc(1)
        if args[0][0] == "s":
            raise Excluded("string argument of a floating point function")
        x, ex = as_float(args[0])
        return float_func(name, x, ex)
    if name == "INT":
        argc(1)
        if args[0][0] == "s":
            raise Excluded("string argument of a floating point function")
        x, ex = as_float(args[0])
        if abs(x) > 2.0e9:
            raise Excluded("INT beyond the documented range of about +-2.0E9")
        if x < 0 and x != math.floor(x):
            raise Excluded("INT of a negative non-integral number (floor or truncation not stated)")
        if ex > 0 and math.floor(x - ex) != math.floor(x + ex):
            raise Excluded("INT of an inexact argument at an integer border")
        return ("i", int(math.floor(x)))
    if name == "SGN":
        argc(1)
        v = args[0]
        if v[0] == "s":
            raise Excluded("SGN of a string")
        if v[0] == "f" and abs(v[1]) <= v[2] and v[2] > 0:
            raise Excluded("SGN of an inexact zero")
        x = v[1]
        return ("i", (x > 0) - (x < 0))
    if name == "ABS":
        argc(1)
        v = args[0]
        if v[0] == "s":
            raise Excluded("ABS of a string")
        if v[0] == "i":
            return ("i", wrap(abs(v[1])))
        return F(abs(v[1]), v[2])
    if name == "EXPRTYPE":
        argc(1)
        return ("i", {"i": 0, "f": 1, "s": 2}[args[0][0]])
    if name in INTFUNCS:
        argc(1)
        x = need_int_arg(args[0], name)
        u = x & M64
        if name == "BITCNT":
            return ("i", bin(u).count("1"))
        if name == "FIRSTBIT":
            return ("i", -1 if u == 0 else (u & -u).bit_length() - 1)
        if name == "LASTBIT":
            return ("i", -1 if u == 0 else u.bit_length() - 1)
        if name == "BITPOS":
            if u == 0 or u & (u - 1):
                raise Undefined("BITPOS: not exactly one bit set (documented error message)")
            return ("i", u.bit_length() - 1)
        if not 0 <= x <= 127:
            raise Excluded(name + " outside 0..127")
        c = chr(x)
        return ("i", ord(c.upper() if name == "TOUPPER" else c.lower()))
    if name in ("UPSTRING", "LOWSTRING"):
        argc(1)
        s = need_str(args[0], name)
        ascii_only(s, name)
        return ("s", s.upper() if name == "UPSTRING" else s.lower())
    if name == "STRLEN":
        argc(1)
        return ("i", len(need_str(args[0], name)))
    if name == "SUBSTR":
        argc(3)
        s = need_str(args[0], name)
        if args[1][0] == "f" or args[2][0] == "f":
            raise Undefined("SUBSTR: integer arguments expected")
        start, cnt = need_int_arg(args[1], name), need_int_arg(args[2], name)
        if cnt < 0:
            raise Excluded("SUBSTR with a negative count")
        if start < 0:
            start = 0            # "A position argument smaller than zero is treated as zero"
        if start >= len(s):
            return ("s", b"")
        return ("s", s[start:] if cnt == 0 else s[start:start + cnt])
    if name == "CHARFROMSTR":
        argc(2)
        s = need_str(args[0], name)
        if args[1][0] == "f":
            raise Undefined("CHARFROMSTR: integer position expected")
        pos = need_int_arg(args[1], name)
        if pos < 0 or pos >= len(s):
            return ("i", -1)
        if s[pos] > 127:
            raise Excluded("CHARFROMSTR of a character above 127 (sign of the result not stated)")
        return ("i", s[pos])
    if name == "STRSTR":
        argc(2)
        s, t = need_str(args[0], name), need_str(args[1], name)
        if not t:
            raise Excluded("STRSTR with an empty pattern")
        return ("i", s.find(t))
    if name == "VAL":
        argc(1)
        return evalstr(need_str(args[0], name))
    raise Excluded("unknown function " + name)


# ------------------------------------------------------------------------- evaluation

def lit_value(node):
    k = node[0]
    if k == "i":
        if not 0 <= node[1] <= MAXI:
            raise Excluded("integer literal beyond 2^63-1")
        return ("i", node[1])
    if k == "f":
        return F(float(node[1]))
    if k == "s":
        if k == "s" and isinstance(node[1], str):
            return ("s", bytes.fromhex(node[1]))
        return ("s", bytes(c for c, _ in node[1]))
    raise ValueError(node)


def compare(op, a, b):
    if op in ("=", "=="):
        return a == b
    if op in ("<>", "!="):
        return a != b
    return {"<": a < b, ">": a > b, "<=": a <= b, ">=": a >= b}[op]


def binop(op, a, b):
    ta, tb = a[0], b[0]
    if op in CMP:
        if ta == "s" and tb == "s":
            sa, sb = a[1], b[1]
            if op not in ("=", "==", "<>", "!="):
                ascii_only(sa + sb, "ordering of strings")
                if 1 <= len(sa) <= 4 and 1 <= len(sb) <= 4 and \
                        compare(op, sa, sb) != compare(op, str2int(sa), str2int(sb)):
                    raise Excluded("ordering of character constants of different length")
            return ("i", int(compare(op, sa, sb)))
        if "f" in (ta, tb):
            x, ex = as_float(a)
            y, ey = as_float(b)
            if ex + ey > 0 and abs(x - y) <= ex + ey:
                raise Excluded("comparison of inexact floats within their error bound")
            return ("i", int(compare(op, x, y)))
        return ("i", int(compare(op, as_int(a), as_int(b))))
    if op in INTONLY:
        x, y = as_int(a), as_int(b)
        if op == "&&":
            return ("i", int(x != 0 and y != 0))
        if op == "||":
            return ("i", int(x != 0 or y != 0))
        if op == "!!":
            return ("i", int((x != 0) != (y != 0)))
        if op == "&":
            return ("i", wrap(x & y))
        if op == "|":
            return ("i", wrap(x | y))
        if op == "!":
            return ("i", wrap(x ^ y))
        if op == "#":
            if y == 0:
                raise Undefined("modulo division by zero")
            if x < 0 or y < 0:
                raise Excluded("modulo division with a negative operand (sign not stated)")
            return ("i", x % y)
        if op in ("<<", ">>"):
            if not 0 <= y <= 63:
                raise Excluded("shift count outside 0..63")
            if op == "<<":
                return ("i", wrap(x << y))
            if x < 0:
                raise Excluded("'log. shift right' of a negative number")
            return ("i", x >> y)
        if op == "><":
            if not 1 <= y <= 32:
                raise Undefined("mirror count outside 1..32")
            u = x & M64
            low = u & ((1 << y) - 1)
            mir = int(format(low, "0%db" % y)[::-1], 2)
            return ("i", wrap((u >> y << y) | mir))
    if op in ARITH:
        if op == "+" and ta == "s" and tb == "s":
            return ("s", a[1] + b[1])
        if "f" in (ta, tb):
            x, ex = as_float(a)
            y, ey = as_float(b)
            try:
                if op in "+-":
                    # inexact operands: the rounding of the sum may fall to either side
                    r = x + y if op == "+" else x - y
                    return F(r, (ex + ey) * 1.01 + ulp(r) if ex + ey else 0.0)
                if op == "*":
                    r = x * y
                    return F(r, (abs(x) * ey + abs(y) * ex + ex * ey) * 1.01 + (ulp(r) if ex + ey else 0))
                if op == "/":
                    if y == 0.0:
                        if ey > 0:
                            raise Excluded("inexact zero divisor")
                        raise Undefined("division by zero")
                    if abs(y) <= 2 * ey:
                        raise Excluded("inexact divisor near zero")
                    r = x / y
                    e = 0.0
                    if ex + ey:
                        e = (ex + abs(r) * ey) / (abs(y) - ey) * 1.01 + ulp(r)
                    return F(r, e)
                # power
                if ex + ey > 0:
                    raise Excluded("power with inexact operands")
                if y == 0.0:
                    return F(1.0)
                if x == 0.0:
                    if y < 0:
                        raise Excluded("zero to a negative power")
                    return F(0.0)
                if x > 0:
                    r = math.pow(x, y)
                    return F(r, 4 * ulp(r))
                if y != math.floor(y):
                    raise Undefined("negative base with a non-integral exponent")
                if abs(y) > 64:
                    raise Excluded("negative base with a large exponent")
                r = math.pow(x, y)
                return F(r, (abs(y) + 4) * ulp(r))
            except OverflowError:
                raise Excluded("float overflow")
        if op == "+" and "s" in (ta, tb):
            raise Excluded("sum of a string and an integer")
        x, y = as_int(a), as_int(b)
        if op == "+":
            return ("i", wrap(x + y))
        if op == "-":
            return ("i", wrap(x - y))
        if op == "*":
            return ("i", wrap(x * y))
        if op == "/":
            if y == 0:
                raise Undefined("division by zero")
            q = abs(x) // abs(y)
            return ("i", wrap(q if (x < 0) == (y < 0) else -q))
        if op == "^":
            if y < 0:
                raise Excluded("integer power with a negative exponent")
            return ("i", wrap(pow(x & M64, y, 1 << 64)))
    raise ValueError(op)


PREDEF = {"TRUE": ("i", 1), "FALSE": ("i", 0), "CONSTPI": ("f", math.pi, 0.0)}


def evaluate(node, env=None):
    """env: {upper-case symbol name: value tuple}"""
    k = node[0]
    if k in ("i", "f", "s"):
        return lit_value(node)
    if k == "min":
        return ("i", MINI)
    if k == "y":
        nm = node[1].upper()
        if nm in PREDEF:
            return PREDEF[nm]
        if env is None or nm not in env:
            raise Excluded("symbol without definition")
        return env[nm]
    if k == "p":
        return evaluate(node[1], env)
    if k == "n":
        v = evaluate(node[1], env)
        if v[0] == "i":
            return ("i", wrap(-v[1]))
        if v[0] == "f":
            return F(0.0 - v[1], v[2])
        raise Excluded("unary minus of a string")
    if k == "u":
        v = evaluate(node[2], env)
        x = as_int(v)
        return ("i", wrap(~x)) if node[1] == "~" else ("i", int(x == 0))
    if k == "b":
        # both operands are evaluated (no short circuit): an error in either is an error
        a = b = None
        err = None
        for idx in (2, 3):
            try:
                v = evaluate(node[idx], env)
            except Undefined as e:
                err = err or e
                v = None
            if idx == 2:
                a = v
            else:
                b = v
        if err:
            raise err
        return binop(node[1], a, b)
    if k == "c":
        args = []
        err = None
        for a in node[2]:
            try:
                args.append(evaluate(a, env))
            except Undefined as e:
                err = err or e
        if err:
            raise err
        if node[1] == "VAL":
            # the argument tree carries the expression whose rendering is the string: ["v", expr]
            raise ValueError("VAL is represented by a 'v' node")
        return call(node[1], args, None)
    if k == "v":
        # VAL("<rendering of node[1]>"): evaluates the contents as an expression
        return evaluate(node[1], env)
    raise ValueError(node)


def depth(node):
    k = node[0]
    if k in ("i", "f", "s", "y", "min"):
        return 0
    if k in ("p", "n", "v"):
        return depth(node[1]) + (0 if k == "p" else 1)
    if k == "u":
        return depth(node[2]) + 1
    if k == "b":
        return max(depth(node[2]), depth(node[3])) + 1
    if k == "c":
        return max([depth(a) for a in node[2]] or [0]) + 1
    raise ValueError(node)


def walk(node):
    yield node
    k = node[0]
    if k in ("p", "n", "v"):
        yield from walk(node[1])
    elif k == "u":
        yield from walk(node[2])
    elif k == "b":
        yield from walk(node[2])
        yield from walk(node[3])
    elif k == "c":
        for a in node[2]:
            yield from walk(a)


# ------------------------------------------------------------------------- notation model

FAMILIES = {
    "moto": ("$hex", "%bin", "@oct"),
    "intel": ("hexh", "binb", "octo", "octq"),
    "c": ("0xhex", "0bbin", "0oct"),
    "ibm": ("x'hex'", "h'hex'", "b'bin'", "o'oct'"),
}
ALL_IDENTS = sum(FAMILIES.values(), ()) + ("0hex",)
BASE = {"$hex": 16, "%bin": 2, "@oct": 8, "hexh": 16, "binb": 2, "octo": 8, "octq": 8, "0xhex": 16,
        "0bbin": 2, "0oct": 8, "x'hex'": 16, "h'hex'": 16, "b'bin'": 2, "o'oct'": 8, "0hex": 16}
DIGITS = "0123456789ABCDEFGHIJKLMNOPQRSTUVWXYZ"


def letter_active(letter, radix):
    """a marker letter is 'eaten' once it is a valid digit of the default radix"""
    return DIGITS.index(letter.upper()) >= radix


class NotationState:
    """native = notations of the target's default syntax +/- INTSYNTAX; relaxed = RELAXED ON;
    removed = notations taken away by INTSYNTAX (their status under RELAXED ON is not stated)"""

    def __init__(self, family="moto"):
        self.native = set(FAMILIES[family])
        self.relaxed = False
        self.removed = set()
        self.added = set()
        self.radix = 10

    def copy(self):
        n = NotationState()
        n.native, n.relaxed, n.removed, n.added, n.radix = set(self.native), self.relaxed, set(self.removed), \
            set(self.added), self.radix
        return n

    def usable(self, ident):
        if ident in self.native:
            # 0oct and 0hex contradict each other; with RELAXED ON 0oct comes in implicitly
            if ident == "0hex" and self.relaxed:
                return False
            return True
        return self.relaxed and ident not in self.removed and ident != "0hex"

    def possible(self, ident):
        return ident in self.native or (self.relaxed and ident != "0hex") or (self.relaxed and ident in self.added)

    def apply(self, stmt):
        """stmt: ["radix", n] | ["relaxed", bool] | ["intsyntax", [+-ident,...]]; returns False if the
        statement would be contradictory (0oct together with 0hex) and must not be emitted"""
        if stmt[0] == "radix":
            self.radix = stmt[1]
        elif stmt[0] == "relaxed":
            self.relaxed = bool(stmt[1])
        else:
            nat = set(self.native)
            for a in stmt[1]:
                if a[0] == "+":
                    nat.add(a[1:])
                else:
                    nat.discard(a[1:])
            if "0oct" in nat and "0hex" in nat:
                return False
            for a in stmt[1]:
                if a[0] == "+":
                    self.added.add(a[1:])
                    self.removed.discard(a[1:])
                else:
                    self.removed.add(a[1:])
                    self.added.discard(a[1:])
            self.native = nat
        return True


def interpretations(s, st):
    """marked notations whose lexical pattern the spelling s shows, among those that may be active"""
    out = set()
    lo = s.lower()
    R = st.radix
    n = len(s)

    def on(ident):
        return st.possible(ident)
    for ident, ch in (("$hex", "$"), ("%bin", "%"), ("@oct", "@")):
        if on(ident) and n > 1 and s[0] == ch:
            out.add(ident)
    chex = on("0xhex") and n > 2 and lo[:2] == "0x" and letter_active("X", R)
    cbin = on("0bbin") and n > 2 and lo[:2] == "0b" and letter_active("B", R)
    if chex:
        out.add("0xhex")
    if cbin:
        out.add("0bbin")
    if s[0].isdigit() and n >= 2:
        for ident, ch in (("hexh", "h"), ("binb", "b"), ("octo", "o"), ("octq", "q")):
            if on(ident) and lo[-1] == ch and letter_active(ch, R):
                out.add(ident)
    if n >= 3 and s[1] == "'":
        for ident in FAMILIES["ibm"]:
            if on(ident) and lo[0] == ident[0]:
                out.add(ident)
    if s[0] == "0" and n >= 2:
        if on("0oct") and not chex and not cbin:
            out.add("0oct")
        if on("0hex") and not chex:
            out.add("0hex")
    return out


def to_base(v, base, upper):
    if v == 0:
        return "0"
    out = ""
    while v:
        out = DIGITS[v % base] + out
        v //= base
    return out if upper else out.lower()


def spell(v, ident, st, flags):
    """spelling of v in notation ident ('dec' = default radix), or None if it is not unambiguous"""
    upper, upmark, lead = flags & 1, flags & 2, flags & 4
    if ident == "dec":
        s = to_base(v, st.radix, upper)
        if not s[0].isdigit():
            s = "0" + s
        if interpretations(s, st):
            return None
        return s
    if not st.usable(ident):
        return None
    b = BASE[ident]
    dg = to_base(v, b, upper)
    if lead:
        dg = "0" + dg
    if ident in ("$hex", "%bin", "@oct"):
        s = ident[0] + dg
    elif ident in ("0xhex", "0bbin"):
        if not letter_active(ident[1], st.radix):
            return None
        s = "0" + (ident[1].upper() if upmark else ident[1]) + dg
    elif ident in ("0oct", "0hex"):
        s = "0" + dg
    elif ident in FAMILIES["intel"]:
        ch = ident[-1]
        if not letter_active(ch, st.radix):
            return None
        if not dg[0].isdigit():
            dg = "0" + dg
        s = dg + (ch.upper() if upmark else ch)
    else:
        ch = ident[0]
        s = (ch.upper() if upmark else ch) + "'" + dg + "'"
    if interpretations(s, st) != {ident}:
        return None
    return s


def spellings(v, st, flags):
    """[(ident, text)] of all unambiguous spellings of v under the notation state"""
    out = []
    for ident in ("dec",) + ALL_IDENTS:
        s = spell(v, ident, st, flags)
        if s is not None:
            out.append((ident, s))
    return out


# ------------------------------------------------------------------------- rendering

RAW_OK = set(range(32, 127)) - set(b"\"'\\{}")
NAMED = {8: "b", 7: "a", 27: "e", 9: "t", 10: "n", 13: "r", 92: "\\", 39: "h", 34: "i"}


def render_char(code, esc, nxt):
    """esc 0 raw (falls back to an escape if the character cannot stand for itself)"""
    if esc == 0 and code in RAW_OK:
        return chr(code)
    if esc in (0, 1) and code in NAMED:
        return "\\" + NAMED[code]
    if esc == 5 and code in NAMED and NAMED[code].isalpha():
        return "\\" + NAMED[code].upper()
    if esc == 2:
        return "\\x%02x" % code
    if esc == 3:
        return "\\0%03o" % code
    if esc == 4 or esc == 6:
        # decimal: up to three digits, no leading zero (a leading zero means octal)
        s = "\\%d" % code
        if code >= 100 or nxt is None or not chr(nxt).isdigit():
            return s
    return "\\x%02X" % code


def render_string(items, single):
    out = []
    for i, (code, esc) in enumerate(items):
        nxt = items[i + 1][0] if i + 1 < len(items) else None
        if i + 1 < len(items) and items[i + 1][1] != 0:
            nxt = None    # the next character is itself written as an escape (starts with a backslash)
        elif nxt is not None and nxt not in RAW_OK:
            nxt = None
        out.append(render_char(code, esc, nxt))
    q = "'" if single else '"'
    return q + "".join(out) + q


class Renderer:
    def __init__(self, st, force_dq=False):
        self.st = st
        self.force_dq = force_dq
        self.notations = []       # notation idents used
        self.unspellable = 0

    def lit(self, node):
        v, pref, flags = node[1], node[2], node[3]
        av = spellings(v, self.st, flags)
        if not av:
            av = spellings(v, self.st, flags & ~4)
        if not av:
            raise Excluded("no unambiguous spelling in this notation state")
        ident, s = av[pref % len(av)]
        self.notations.append(ident)
        return s

    def r(self, node):
        """returns (text, rank): rank 0 = primary, 'neg' for a leading unary minus"""
        k = node[0]
        if k == "i":
            return self.lit(node), 0
        if k == "min":
            return "(-" + self.lit(["i", MAXI, 0, 0]) + "-" + self.lit(["i", 1, 0, 0]) + ")", 0
        if k == "f":
            if "." not in node[1] and (self.st.radix > 14 or self.st.possible("hexh") or self.st.possible("0hex")):
                raise Excluded("float literal without a decimal point where E may be a digit")
            return node[1], 0
        if k == "s":
            return render_string(node[1], node[2] and not self.force_dq), 0
        if k == "y":
            return node[1], 0
        if k == "p":
            return "(" + self.r(node[1])[0] + ")", 0
        if k == "n":
            t, rk = self.r(node[1])
            if rk != 0:
                t = "(" + t + ")"
            return "-" + t, "neg"
        if k == "u":
            t, rk = self.r(node[2])
            if rk != 0:
                t = "(" + t + ")"
            return node[1] + t, URANK[node[1]]
        if k == "b":
            op, sp = node[1], node[4]
            rank = RANK[op]
            lt, lr = self.r(node[2])
            rt, rr = self.r(node[3])
            if lr == "neg":
                lr = NEG_RANK
                if rank < NEG_RANK:
                    lt, lr = "(" + lt + ")", 0
            if lr > rank:
                lt = "(" + lt + ")"
            if rr == "neg" or rr >= rank:
                rt = "(" + rt + ")"
            o = (op, " " + op + " ", op + " ", " " + op)[sp & 3]
            if op in "+-" and lt[-1:] in "eE" and rt[:1].isdigit() and o[0] != " " and _EXPLIKE.search(lt):
                # 3E+0 under RADIX 16 or with the 0hex notation: hex constant plus term, or float constant
                raise Excluded("digits E sign digits: integer constant plus term or float constant")
            return lt + o + rt, rank
        if k == "c":
            name = node[1]
            name = (name, name.lower(), name.capitalize())[node[3] % 3]
            args = [self.r(a)[0] for a in node[2]]
            return name + "(" + (", " if node[3] >= 3 else ",").join(args) + ")", 0
        if k == "v":
            inner = Renderer(self.st, self.force_dq)
            t = inner.r(node[1])[0]
            self.notations += inner.notations
            if '"' in t or "\\" in t or "'" in t:
                raise Excluded("VAL argument would need quoting")
            name = ("VAL", "val", "Val")[node[2] % 3]
            return name + '("' + t + '")', 0
        raise ValueError(node)

    def render(self, node):
        return self.r(node)[0]


# ------------------------------------------------------------------------- comparison helpers

def float_bytes(x):
    return struct.pack(">d", x)


def float_matches(got, ref, err):
    """got, ref floats; err absolute bound (0 = exact IEEE result required, zeros compare equal)"""
    if got != got:
        return False
    if err == 0.0:
        return got == ref
    return abs(got - ref) <= err
