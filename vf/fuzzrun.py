"""Run bounded libFuzzer campaigns (one per tool, in parallel) and return the saved artifacts."""
import os, re, shutil, subprocess, time, glob
from . import build, fuzzbuild, run

FUZZ = fuzzbuild.FUZZ


def options(tool):
    p = os.path.join(FUZZ, "options_%s.txt" % tool)
    lines = open(p).read().split("\n")
    if lines and lines[-1] == "":
        lines.pop()
    return lines or [""]


def argv_for(tool, data):
    """the argv the harness builds for this input (first byte = option line)"""
    inp, has_out, before = fuzzbuild.TARGETS[tool]
    opts = options(tool)[data[0] % len(options(tool))].split() if data else []
    opts = [os.path.join(build.REPO, "include") if o == "@INC@" else o for o in opts]
    out = ["out"] if has_out else []
    return ([tool] + opts + [inp] + out) if before else ([tool, inp] + out + opts), inp


def asl_seeds(d, max_len):
    """the golden test sources that fit into max_len, with option line 0 (-q -i include)"""
    from . import corpus
    os.makedirs(d, exist_ok=True)
    n = 0
    for name in corpus.names():
        try:
            src = corpus.load(name)["src"]
        except Exception:
            continue
        b = src if isinstance(src, bytes) else src.encode("latin-1", "replace")
        if 0 < len(b) < max_len:
            open(os.path.join(d, name), "wb").write(b"\0" + b)
            n += 1
    return n


def campaign(seed, seconds, workers_per_target=2, max_len=4096, asl_workers=6, keep=None):
    """returns (artifacts: list of (tool, path kind, bytes), stats per tool)"""
    fuzzbuild.build_all()
    base = run.mkwork("fuzzcamp")
    procs = {}
    env = dict(os.environ, ASAN_OPTIONS="detect_leaks=0:allocator_may_return_null=1:malloc_context_size=5",
               AS_MSGPATH=fuzzbuild.fdir(), LANG="C", LC_ALL="C")
    env.pop("ASCMD", None)
    for tool in fuzzbuild.TARGETS:
        d = os.path.join(base, tool)
        os.makedirs(os.path.join(d, "corpus"))
        os.makedirs(os.path.join(d, "art"))
        seeds = os.path.join(FUZZ, "seeds", tool)
        workers = workers_per_target
        if tool == "asl":
            seeds = os.path.join(d, "seeds")
            asl_seeds(seeds, max_len)
            from . import fuzzcorpus
            fuzzcorpus.unpack_to(os.path.join(d, "saved"), limit=None if seconds >= 300 else 200)
            workers = asl_workers
        regress = os.path.join(FUZZ, "regress", tool)
        argv = [fuzzbuild.exe(tool), "-seed=%d" % (seed % (1 << 31)), "-max_total_time=%d" % seconds,
                "-max_len=%d" % max_len, "-timeout=20", "-rss_limit_mb=2048", "-handle_xfsz=0", "-entropic=0",
                "-fork=%d" % workers, "-ignore_crashes=1", "-ignore_timeouts=1", "-ignore_ooms=1",
                "-artifact_prefix=" + os.path.join(d, "art") + "/", "-print_final_stats=1",
                os.path.join(d, "corpus")]
        for s in (seeds, regress, os.path.join(d, "saved")):
            if os.path.isdir(s) and os.listdir(s):
                argv.append(s)
        dic = os.path.join(FUZZ, "dict_%s.txt" % ("asl" if tool == "asl" else "pfile"))
        if os.path.exists(dic):
            argv.insert(1, "-dict=" + dic)
        log = open(os.path.join(d, "log"), "wb")
        procs[tool] = (subprocess.Popen(argv, cwd=d, env=env, stdin=subprocess.DEVNULL, stdout=log, stderr=log), log, d)
    deadline = time.time() + seconds + 90
    arts, stats = [], {}
    for tool, (p, log, d) in procs.items():
        try:
            p.wait(timeout=max(1, deadline - time.time()))
        except subprocess.TimeoutExpired:
            p.kill()
            p.wait()
        log.close()
        txt = open(os.path.join(d, "log"), "rb").read().decode("latin-1")
        runs = [int(x) for x in re.findall(r"^#(\d+):", txt, re.M)]
        cov = [int(x) for x in re.findall(r"cov: (\d+)", txt)]
        stats[tool] = dict(execs=max(runs) if runs else 0, cov=max(cov) if cov else 0,
                           corpus=len(os.listdir(os.path.join(d, "corpus"))))
        for f in sorted(glob.glob(os.path.join(d, "art", "*"))):
            kind = os.path.basename(f).split("-")[0]
            if kind in ("crash", "leak"):
                b = open(f, "rb").read()
                if 0 < len(b) <= 1 << 16:
                    arts.append((tool, kind, b))
    if keep:
        # development aid: keep the grown corpora (to be minimised into fuzz/seeds/<tool>)
        for tool in fuzzbuild.TARGETS:
            dst = os.path.join(keep, tool)
            shutil.rmtree(dst, ignore_errors=True)
            shutil.copytree(os.path.join(base, tool, "corpus"), dst)
    shutil.rmtree(base, ignore_errors=True)
    for dd in glob.glob("/dev/shm/vf-fz-*"):
        shutil.rmtree(dd, ignore_errors=True)
    return arts, stats
