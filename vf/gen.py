"""Small helpers shared by the generators (all randomness comes from Hypothesis draws)."""
from hypothesis import strategies as st


class D:
    """thin wrapper around a hypothesis draw function"""

    def __init__(self, draw):
        self.draw = draw

    def int(self, lo, hi):
        return self.draw(st.integers(lo, hi))

    def bool(self, p=None):
        if p is None:
            return self.draw(st.booleans())
        return self.draw(st.integers(0, 999)) < int(p * 1000)

    def choice(self, seq):
        seq = list(seq)
        return seq[self.draw(st.integers(0, len(seq) - 1))]

    def weighted(self, pairs):
        """pairs: [(weight, value)]; first entries are what shrinking converges to"""
        tot = sum(w for w, _ in pairs)
        x = self.draw(st.integers(0, tot - 1))
        for w, v in pairs:
            if x < w:
                return v
            x -= w
        return pairs[-1][1]

    def bytes(self, n):
        return self.draw(st.binary(min_size=n, max_size=n))

    def subset(self, seq, p=0.5):
        return [x for x in seq if self.bool(p)]

    def shuffle(self, seq):
        return self.draw(st.permutations(list(seq)))

    def near(self, centre, spread=2, lo=None, hi=None):
        v = centre + self.int(-spread, spread)
        if lo is not None:
            v = max(lo, v)
        if hi is not None:
            v = min(hi, v)
        return v


def composite(fn):
    """@composite def gen(d, ...): d is a D"""
    @st.composite
    def wrapper(draw, *a, **k):
        return fn(D(draw), *a, **k)
    return wrapper


def num(d, v, styles=("dec", "dollar", "0x", "h")):
    """render a non-negative number in one of the notations the tools' command lines accept"""
    s = d.choice(styles)
    if s == "dec":
        return str(v)
    if s == "dollar":
        return "$%x" % v
    if s == "0x":
        return "0x%x" % v
    h = "%xh" % v
    if not h[0].isdigit():
        h = "0" + h
    return h
