"""Generator of synthetic code files for C06 (P2HEX): address families around the 64 KiB / 1 MiB /
16 MiB / 2 GiB boundaries, records longer than one hex line, compact payload description.

Derived from vf/pgen.py (not modified); the records are JSON:
  dict(kind='data', cpu, seg, gran, addr, n=<units>, pk='ramp'|'const'|'hex', x, c, hex?, form)
  dict(kind='entry', addr)
The payload is a pure function of the record (payload()).
"""
from . import pfile


def payload(r):
    nb = r["n"] * r["gran"]
    pk = r.get("pk", "ramp")
    if pk == "hex":
        b = bytes.fromhex(r["hex"])
        assert len(b) == nb
        return b
    if pk == "const":
        return bytes([r["x"] & 0xff]) * nb
    c, x = r["c"], r["x"]
    return bytes((((c + i) * 7) + x + (((c + i) >> 8) * 13)) & 0xff for i in range(nb))


def to_records(jrecs):
    out = []
    for r in jrecs:
        if r["kind"] == "data":
            out.append(pfile.data(r["cpu"], r["addr"], payload(r), r["seg"], r["gran"], r["form"]))
        elif r["kind"] == "entry":
            out.append(pfile.entry(r["addr"]))
    return out


def file_bytes(jfile):
    return pfile.build(to_records(jfile["recs"]))


def opt(d, p):
    """True with probability p; shrinks towards False"""
    return d.int(0, 999) >= 1000 - int(p * 1000)


def gen_len(d, line, big_ok):
    """record length in units, aimed at the line length `line` (bytes/gran) of the run"""
    kind = d.weighted([(5, "short"), (4, "multi"), (3, "edge"), (1, "zero"), (2, "long"), (1 if big_ok else 0, "huge")])
    if kind == "short":
        return d.int(1, max(1, line))
    if kind == "multi":
        return d.int(line + 1, 5 * line + 3)
    if kind == "edge":
        return max(1, line * d.int(1, 3) + d.int(-1, 1))
    if kind == "zero":
        return 0
    if kind == "long":
        return d.int(250, 600)
    return d.choice([0x7fff, 0x8000, 0xfff0, 0xffff])


def gen_file(d, name, *, gran, cpus, segs, anchors, line, counter, sel_seg=1, max_recs=5, entry_p=0.3,
             entry_max=0xffff, offset=None, big_ok=False, first_at=None, limit=0xffffffff):
    """anchors: list of (unit address, kind) where kind 'cross' = place the record across the address,
    'at' = start near it.  Addresses are clamped into 0..limit (unit addresses of the input space)."""
    nrec = d.int(1, max_recs)
    recs = []
    cur = None
    for k in range(nrec):
        cpu = d.choice(cpus)
        seg = d.choice(segs)
        n = gen_len(d, line, big_ok)
        if n * gran > 0xffff:
            n = 0xffff // gran
        mode = d.weighted([(4, "anchor"), (4, "gap"), (3, "adjacent"), (2, "overlap")]) if cur is not None else "anchor"
        if k == 0 and first_at is not None:
            cur = first_at
        elif mode == "anchor":
            a, kind = d.choice(anchors)
            if kind == "cross" and n > 1:
                cur = a - d.int(1, n - 1)
            elif kind == "cross":
                cur = a - d.int(0, 1)
            else:
                cur = a + d.int(0, 24)
        elif mode == "gap":
            cur += d.int(1, 40)
        elif mode == "overlap":
            cur -= d.int(1, 12)
        cur = max(0, min(cur, limit + 1 - max(n, 1)))
        g = gran
        pk = d.weighted([(6, "ramp"), (1, "const"), (2, "hex")]) if n * g <= 48 else d.weighted([(8, "ramp"), (1, "const")])
        r = dict(kind="data", cpu=cpu, seg=seg, gran=g, addr=cur, n=n, pk=pk, x=d.int(0, 255), c=counter[0],
                 form="long")
        if pk == "hex":
            r["hex"] = d.bytes(n * g).hex()
        elif pk == "const":
            r["x"] = d.choice([0x00, 0xff, 0x80, 0x01, r["x"]])
        if seg == 1 and g == pfile.implied_gran(cpu, 1) and opt(d, 0.3):
            r["form"] = "short"
        counter[0] += n * g + 1
        recs.append(r)
        cur += n
    if opt(d, entry_p):
        recs.append(dict(kind="entry", addr=d.int(0, entry_max)))
    return dict(name=name, offset=offset, recs=recs)
