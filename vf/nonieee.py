"""C09 supplement: data statements that lay down the documented NON-IEEE formats.

  ibm   TMS99xxx SINGLE/DOUBLE  "the processor's floating point format, which is equal to the IBM/360 floating
        point format": sign, 7 bit excess-64 exponent to the base 16, 24/56 bit fraction, normalised (first hex
        digit of the fraction not zero), true zero = all bits zero, most significant byte first (TMS9900 memory)
  c3x   TMS320C3x/C4x SINGLE/EXTENDED (and DATA with a float literal = SINGLE): "the processor-specific formats
        with 32 and 40 bit": 8 bit two's complement exponent e, sign s, fraction f; value = (1.f) * 2^e for s=0,
        (-2 + 0.f) * 2^e for s=1 (two's complement mantissa with implied most significant non-sign bit),
        e = -128: zero.  EXTENDED: exponent in the first word (low 8 bits), 32 bit mantissa in the second.
  q     TMS320C2x/C5x Qxx/LQxx: "The operand is first multiplied by 2^xx before converting it to binary
        notation ... Qxx stores only one word (16 bit) while LQxx stores two words (low word first)".

Oracle (written from those definitions, exact rational arithmetic):
  * a value that the format represents exactly must be laid down as exactly that (unique) encoding;
  * a value between two neighbours must decode to within one unit of the last place of the exact value (the
    manual does not say whether AS rounds or truncates);
  * a value beyond the largest magnitude of the format must be rejected with an error on its line.
Values are generated from (sign, integer mantissa, binary exponent) triples, i.e. they are exact doubles, and are
written with the shortest decimal string that reads back as that double.
"""
from fractions import Fraction

from vf import asl, engine

IBM_CPUS = ["tms9900", "tms9995", "tms99105", "tms99110"]
C3X_CPUS = ["320c30", "320c31", "320c40", "320c44"]
Q_CPUS = ["320c25", "320c26", "320c28", "320c50", "320c51", "320c203"]

BASE = {"ibm": 0x1000, "c3x": 0x100, "q": 0x100}
SLOT = {"ibm": 0x20, "c3x": 8, "q": 8}
GRAN = {"ibm": 1, "c3x": 4, "q": 2}


def val(st):
    s, m, e = st
    v = Fraction(m) * (Fraction(2) ** e)
    return -v if s else v


def lit(st):
    x = float(val(st))
    assert Fraction(x) == val(st), st
    r = repr(x)
    if "e" not in r and "." not in r:
        r += ".0"
    if "inf" in r or "nan" in r:
        raise ValueError(st)
    return r


def ilog2(v):
    """floor(log2(v)) of a positive Fraction"""
    e = v.numerator.bit_length() - v.denominator.bit_length()
    if Fraction(2) ** e > v:
        e -= 1
    if Fraction(2) ** (e + 1) <= v:
        e += 1
    return e


# ---------------------------------------------------------------------------------------------- IBM/360

def ibm_expect(x, fracbits):
    """-> ("rej",) | ("exact", bytes) | ("near", lo value, hi value) ; x Fraction"""
    n = (8 + fracbits) // 8
    if x == 0:
        return ("exact", bytes(n))
    a = abs(x)
    k = ilog2(a) // 4 + 1                   # 16^(k-1) <= a < 16^k
    while Fraction(16) ** (k - 1) > a:
        k -= 1
    while Fraction(16) ** k <= a:
        k += 1
    E = k + 64
    if E > 127:
        return ("rej",)
    if E < 0:
        return ("unsettled",)
    fr = a / (Fraction(16) ** k) * (1 << fracbits)
    if fr.denominator == 1:
        word = ((0x80 if x < 0 else 0) | E) << fracbits | int(fr)
        return ("exact", word.to_bytes(n, "big"))
    ulp = (Fraction(16) ** k) / (1 << fracbits)
    return ("near", ulp)


def ibm_decode(bs, fracbits):
    w = int.from_bytes(bs, "big")
    sign = w >> (7 + fracbits) & 1
    E = (w >> fracbits) & 0x7f
    fr = w & ((1 << fracbits) - 1)
    v = Fraction(fr, 1 << fracbits) * (Fraction(16) ** (E - 64))
    return -v if sign else v, fr >> (fracbits - 4) != 0 or fr == 0


# ---------------------------------------------------------------------------------------------- C3x/C4x

def c3x_split(x, fbits):
    """-> None (not representable range) | (e, s, frac as Fraction in units of 2^-fbits)"""
    a = abs(x)
    e = ilog2(a)
    if x > 0:
        f = (a / Fraction(2) ** e - 1) * (1 << fbits)
        return e, 0, f
    if a == Fraction(2) ** e:               # -2^e = -2.0 * 2^(e-1)
        return e - 1, 1, Fraction(0)
    f = (2 - a / Fraction(2) ** e) * (1 << fbits)
    return e, 1, f


def c3x_decode(e8, mant, fbits):
    """e8: exponent byte, mant: sign + fbits"""
    e = e8 - 256 if e8 & 0x80 else e8
    if e == -128:
        return Fraction(0), e
    s = mant >> fbits & 1
    f = Fraction(mant & ((1 << fbits) - 1), 1 << fbits)
    return ((-2 if s else 1) + f) * Fraction(2) ** e, e


def c3x_expect(x, fbits):
    if x == 0:
        return ("exact", 0x80, 0)
    e, s, f = c3x_split(x, fbits)
    if e > 127:
        return ("rej",)
    if e < -127:
        return ("unsettled",)
    if f.denominator == 1:
        return ("exact", e & 0xff, (s << fbits) | int(f))
    if e >= 127 or e <= -126:
        return ("unsettled",)               # rounding may leave the format at the ends
    return ("near", Fraction(2) ** (e - fbits))


# ---------------------------------------------------------------------------------------------- generation

def gen_triple(d, mbits, emin, emax):
    m = d.weighted([(3, lambda: 1), (3, lambda: d.int(1, 15)), (4, lambda: d.int(1, (1 << min(mbits, 24)) - 1)),
                    (4, lambda: d.int(1, (1 << mbits) - 1)), (2, lambda: (1 << mbits) - 1),
                    (2, lambda: (1 << (mbits - 1)) + 1)])()
    e = d.int(emin, emax)
    return [1 if d.bool(0.45) else 0, m, e]


def generate(d):
    fmt = d.weighted([(4, "ibm"), (5, "c3x"), (4, "q")])
    n = d.int(3, 14)
    stmts = []
    for _ in range(n):
        args = []
        if fmt == "ibm":
            op = d.choice(["single", "double"])
            fb = 24 if op == "single" else 56
            for _ in range(d.weighted([(5, 1), (2, 2), (1, 3)])):
                k = d.weighted([(6, "exact"), (3, "near"), (2, "edge"), (1, "zero"), (2, "over")])
                if k == "zero":
                    args.append([0, 0, 0])
                elif k == "over":
                    args.append([1 if d.bool(0.5) else 0, d.int(1, 255), 252 + d.int(0, 40)])
                elif k == "edge":
                    # largest values of the format: 0.FFFFFF * 16^63 and neighbours; smallest exponent digits
                    mb = min(fb, 53)
                    m = d.choice([(1 << mb) - 1, (1 << mb) - 2, 1 << (mb - 1), 15 << (mb - 4)])
                    e = d.choice([252 - mb, 248 - mb, -256, -255, -252 - mb + mb, 0 - mb, 4 - mb])
                    args.append([1 if d.bool(0.5) else 0, m, e])
                elif k == "exact":
                    mb = d.int(1, min(fb - 3, 53))
                    args.append(gen_triple(d, mb, -200 - mb, 200 - mb) if d.bool(0.3) else gen_triple(d, mb, -30 - mb, 40 - mb))
                else:
                    args.append(gen_triple(d, 53, -120, 60))
        elif fmt == "c3x":
            op = d.weighted([(5, "single"), (4, "extended"), (2, "data")])
            fb = 31 if op == "extended" else 23
            for _ in range(d.weighted([(5, 1), (2, 2), (1, 3)])):
                k = d.weighted([(4, "exact"), (4, "pow2"), (3, "near"), (2, "edge"), (1, "zero"), (2, "over")])
                if k == "zero":
                    args.append([0, 0, 0])
                elif k == "pow2":
                    args.append([1 if d.bool(0.7) else 0, 1, d.int(-126, 127) if d.bool(0.7) else d.int(-4, 4)])
                elif k == "over":
                    args.append([1 if d.bool(0.5) else 0, d.int(3, 255), 127 + d.int(0, 60)])
                elif k == "edge":
                    m, e = d.choice([((1 << (fb + 1)) - 1, 127 - fb), (1, 127), (1, 128), (1, -127), (3, -127),
                                     ((1 << (fb + 1)) - 1, -127 - fb), ((1 << fb) + 1, 127 - fb)])
                    s = 1 if d.bool(0.5) else 0
                    if (m, e) == (1, 128):
                        s = 1                               # -2^128 is the most negative value; +2^128 is "over"
                    args.append([s, m, e])
                elif k == "exact":
                    mb = d.int(1, fb + 1)
                    args.append(gen_triple(d, mb, -100 - mb, 100 - mb) if d.bool(0.4) else gen_triple(d, mb, -10 - mb, 12 - mb))
                else:
                    args.append(gen_triple(d, 53, -110, 60))
        else:
            long_ = d.bool(0.45)
            bits = 32 if long_ else 16
            q = d.weighted([(2, 0), (2, 15), (1, 31 if long_ else 14), (5, d.int(0, 31 if long_ else 15)), (1, d.int(0, 40))])
            op = ("lq%02d" if long_ else "q%02d") % q
            for _ in range(d.weighted([(5, 1), (2, 2), (1, 3)])):
                k = d.weighted([(6, "exact"), (3, "limit"), (2, "near"), (1, "zero"), (2, "over")])
                if k == "zero":
                    args.append([0, 0, 0])
                elif k == "exact":
                    s = 1 if d.bool(0.5) else 0
                    m = d.int(1, (1 << (bits - 1)) - 1) if d.bool(0.6) else d.int(1, 300)
                    args.append([s, m, -q])
                elif k == "limit":
                    s, m = d.choice([(0, (1 << (bits - 1)) - 1), (1, 1 << (bits - 1)), (1, (1 << (bits - 1)) - 1),
                                     (0, (1 << (bits - 1)) - 2)])
                    args.append([s, m, -q])
                elif k == "near":
                    s = 1 if d.bool(0.5) else 0
                    m = d.int(1, (1 << (bits - 2)) - 1)
                    args.append([s, 4 * m + d.int(1, 3), -q - 2])     # scaled value has a fraction of 1/4..3/4
                else:
                    s = 1 if d.bool(0.5) else 0
                    args.append([s, (1 << bits) + d.int(0, 1 << bits), -q])
        stmts.append([op, args])
    cpu = d.choice({"ibm": IBM_CPUS, "c3x": C3X_CPUS, "q": Q_CPUS}[fmt])
    return dict(kind="nonieee", fmt=fmt, cpu=cpu, upper=d.bool(0.3), stmts=stmts)


# ---------------------------------------------------------------------------------------------- expectation

def expect_arg(fmt, op, st):
    """-> (kind, payload, units) with units = number of target units the argument occupies"""
    x = val(st)
    if fmt == "ibm":
        fb = 24 if op == "single" else 56
        return ibm_expect(x, fb), (8 + fb) // 8
    if fmt == "c3x":
        fb = 31 if op == "extended" else 23
        return c3x_expect(x, fb), 2 if op == "extended" else 1
    long_ = op.startswith("lq")
    q = int(op[-2:])
    bits = 32 if long_ else 16
    sc = x * (Fraction(2) ** q)
    lo, hi = -(1 << (bits - 1)), (1 << (bits - 1)) - 1
    if sc.denominator == 1:
        if lo <= sc <= hi:
            return ("exact", int(sc) & ((1 << bits) - 1)), bits // 16
        if abs(sc) >= (1 << bits):
            return ("rej",), bits // 16
        return ("unsettled",), bits // 16
    if lo + 1 < sc < hi - 1:
        return ("near", Fraction(1)), bits // 16
    if abs(sc) >= (1 << bits) + 1:
        return ("rej",), bits // 16
    return ("unsettled",), bits // 16


def plan(case, with_bad):
    """-> (lines, checks=[(byte address, nbytes, fmt, op, st, expectation)], badlines={line: text}, tags)"""
    fmt = case["fmt"]
    up = (lambda s: s.upper()) if case["upper"] else (lambda s: s)
    lines = ["\t" + up("cpu") + " " + case["cpu"]]
    checks, bad, tags = [], {}, []
    gran = GRAN[fmt]
    for i, (op, args) in enumerate(case["stmts"]):
        exps = [expect_arg(fmt, op, st) for st in args]
        kinds = [e[0][0] for e in exps]
        if "unsettled" in kinds:
            tags.append("unsettled-arg")
            continue
        isbad = "rej" in kinds
        if isbad and not with_bad:
            continue
        addr = BASE[fmt] + i * SLOT[fmt]
        lines.append("\t" + up("org") + " " + str(addr))
        lines.append("\t" + up(op) + "\t" + ",".join(lit(st) for st in args))
        if isbad:
            bad[len(lines)] = lines[-1].strip()
            tags.append("%s:%s:rejected" % (fmt, op[:2] if fmt == "q" else op))
            continue
        a = addr
        for st, (e, units) in zip(args, exps):
            checks.append((a * gran, units * gran, op, st, e))
            a += units
            cls = e[0]
            if fmt == "c3x" and st[0] and st[1] and (st[1] & (st[1] - 1)) == 0:
                cls += "-negative-power-of-two"
            if fmt == "q" and e[0] == "exact" and val(st) * (Fraction(2) ** int(op[-2:])) in (
                    -(1 << 15), (1 << 15) - 1, -(1 << 31), (1 << 31) - 1):
                cls += "-at-limit"
            tags.append("%s:%s:%s" % (fmt, op[:2] if fmt == "q" and not op.startswith("lq") else (op[:2] if fmt == "q" else op), cls))
    lines.append("\t" + up("end"))
    return lines, checks, bad, tags


def memory(r, gran):
    got = {}
    for rec in r.records():
        if rec["kind"] != "data":
            continue
        if rec["gran"] != gran:
            return None, "record granularity %d, expected %d" % (rec["gran"], gran)
        base = rec["addr"] * rec["gran"]
        for k, b in enumerate(rec["data"]):
            if base + k in got:
                return None, "byte address %x written twice" % (base + k)
            got[base + k] = b
    return got, None


def judge(fmt, op, st, e, bs):
    """bs: the bytes of the argument as stored in the code file; returns None or a reason"""
    x = val(st)
    if fmt == "ibm":
        fb = 24 if op == "single" else 56
        if e[0] == "exact":
            if bs != e[1]:
                return "IBM %s of %s: bytes %s, expected %s" % (op, lit(st), bs.hex(), e[1].hex())
            return None
        v, norm = ibm_decode(bs, fb)
        if abs(v - x) > e[1]:
            return "IBM %s of %s: bytes %s decode to %s (more than one unit of the last place away)" % (
                op, lit(st), bs.hex(), float(v))
        if not norm:
            return "IBM %s of %s: bytes %s are not normalised" % (op, lit(st), bs.hex())
        return None
    if fmt == "c3x":
        fb = 31 if op == "extended" else 23
        words = [int.from_bytes(bs[i:i + 4], "little") for i in range(0, len(bs), 4)]
        if op == "extended":
            e8, mant = words[0] & 0xff, words[1]
        else:
            e8, mant = words[0] >> 24, words[0] & 0xffffff
        shown = " ".join("%08X" % w for w in words)
        if e[0] == "exact":
            if (e8, mant) != (e[1], e[2]):
                v, _ = c3x_decode(e8, mant, fb)
                return "C3x %s of %s: word(s) %s (= %s), expected exponent %02X mantissa %X" % (
                    op, lit(st), shown, float(v), e[1], e[2])
            return None
        v, _ = c3x_decode(e8, mant, fb)
        if abs(v - x) > e[1]:
            return "C3x %s of %s: word(s) %s decode to %s (more than one unit of the last place away)" % (
                op, lit(st), shown, float(v))
        return None
    bits = 8 * len(bs)
    words = [int.from_bytes(bs[i:i + 2], "little") for i in range(0, len(bs), 2)]
    w = words[0] | (words[1] << 16 if len(words) > 1 else 0)          # LQxx: low word first
    if e[0] == "exact":
        if w != e[1]:
            return "%s %s: word(s) %s, expected %0*X" % (op, lit(st), " ".join("%04X" % t for t in words), bits // 4, e[1])
        return None
    sv = w - (1 << bits) if w >> (bits - 1) else w
    sc = x * (Fraction(2) ** int(op[-2:]))
    if abs(sv - sc) >= 1:
        return "%s %s: stored %d, scaled value %s" % (op, lit(st), sv, float(sc))
    return None


def execute(case):
    fmt = case["fmt"]
    gran = GRAN[fmt]
    classes = ["tgt:nonieee-" + fmt]
    lines, checks, _, tags = plan(case, False)
    classes += tags
    nt = sorted(set(t for t in tags if "exact" in t or "rejected" in t or "near" in t))
    key = "|".join(nt) if nt else None
    src = "\n".join(lines) + "\n"
    if checks:
        r = asl.assemble({"t.asm": src}, args=("-n",))
        if r.timed_out or r.signal in (24, 9):
            return engine.inconclusive("timeout", classes)
        detail = dict(run="A", status=r.status, signal=r.signal, stderr=r.err[-1500:], source=src[:6000])
        if r.signal:
            return engine.bad("asl killed by signal %d" % r.signal, key, classes, **detail)
        errs = [x for x in asl.diagnostics(r.err) if x["kind"] == "error"]
        if errs or r.status != 0 or r.p is None:
            e = errs[0] if errs else None
            text = lines[e["line"] - 1].strip() if e and 0 < e["line"] <= len(lines) else ""
            return engine.bad("valid data statements rejected (status %s): line %s `%s`: %s"
                              % (r.status, e["line"] if e else "?", text, e["msg"] if e else r.err[-200:]),
                              key, classes, **detail)
        try:
            got, why = memory(r, gran)
        except Exception as ex:
            got, why = None, "code file does not parse: %s" % ex
        if why:
            return engine.bad(why, key, classes, **detail)
        claimed = set()
        for a, n, op, st, e in checks:
            if any(a + k not in got for k in range(n)):
                return engine.bad("%s %s: no bytes at address %x" % (op, lit(st), a // gran), key, classes, **detail)
            claimed.update(range(a, a + n))
            why = judge(fmt, op, st, e, bytes(got[a + k] for k in range(n)))
            if why:
                return engine.bad(why, key, classes, **detail)
        extra = sorted(set(got) - claimed)
        if extra:
            return engine.bad("unexpected byte at address %x" % (extra[0] // gran), key, classes, **detail)
    lines, checks, bad, _ = plan(case, True)
    if bad:
        src = "\n".join(lines) + "\n"
        r = asl.assemble({"t.asm": src}, args=("-n",))
        if r.timed_out or r.signal in (24, 9):
            return engine.inconclusive("timeout", classes)
        detail = dict(run="B", status=r.status, signal=r.signal, stderr=r.err[-1500:], source=src[:6000])
        if r.signal:
            return engine.bad("asl killed by signal %d" % r.signal, key, classes, **detail)
        byline = {}
        for x in asl.diagnostics(r.err):
            if x["kind"] == "error":
                byline.setdefault(x["line"], []).append(x)
        for ln, text in sorted(bad.items()):
            if ln not in byline:
                return engine.bad("no error for `%s` (line %d, demanded: range)" % (text, ln), key, classes, **detail)
        for ln in sorted(byline):
            if ln not in bad:
                return engine.bad("error on a valid line %d `%s`: %s" % (ln, lines[ln - 1].strip(), byline[ln][0]["msg"]),
                                  key, classes, **detail)
        if r.status == 0:
            return engine.bad("errors reported but exit status 0", key, classes, **detail)
    return engine.ok(key, classes)


def show(case):
    return "\n".join(plan(case, True)[0])


def fixed_cases():
    """regression inputs and the documented examples"""
    P = lambda s, m, e: [s, m, e]
    out = []
    # negative powers of two in the C3x formats (-1.0 = -2.0 * 2^-1), the most negative value, zero, documented pi
    for cpu in ("320c30", "320c40"):
        out.append(dict(kind="nonieee", fmt="c3x", cpu=cpu, upper=False, stmts=[
            ["single", [P(1, 1, 0)]], ["single", [P(1, 1, 1)]], ["single", [P(0, 1, 0)]], ["single", [P(1, 3, 0)]],
            ["extended", [P(1, 1, 0)]], ["extended", [P(1, 1, -3)]], ["single", [P(1, 1, 128)]],
            ["single", [P(0, 1, 128)]], ["single", [P(0, 0, 0)]], ["extended", [P(0, 0, 0)]],
            ["data", [P(1, 1, 5)]], ["single", [P(1, 1, -126)]], ["single", [P(0, 0xffffff, 104)]]]))
    out.append(dict(kind="nonieee", fmt="q", cpu="320c25", upper=False, stmts=[
        ["q05", [P(0, 5, -1)]], ["q15", [P(1, 1, 0)]], ["q15", [P(0, 32767, -15)]], ["lq31", [P(1, 1, 0)]],
        ["lq31", [P(0, (1 << 31) - 1, -31)]], ["lq00", [P(1, 1, 31)]], ["q00", [P(1, 1, 15)]],
        ["q00", [P(0, 1, 16)]], ["lq00", [P(0, 1, 32)]], ["lq16", [P(1, 3, -16)]]]))
    out.append(dict(kind="nonieee", fmt="ibm", cpu="tms9900", upper=False, stmts=[
        ["single", [P(0, 1, 0)]], ["single", [P(1, 1, 0)]], ["single", [P(1, 949, -3)]], ["double", [P(1, 949, -3)]],
        ["single", [P(0, 0, 0)]], ["double", [P(0, 0, 0)]], ["single", [P(0, 0xffffff, 228)]],
        ["single", [P(0, 1, 252)]], ["double", [P(0, (1 << 53) - 1, 199)]], ["single", [P(0, 1, -4)]],
        ["single", [P(0, 1, -256)]], ["double", [P(0, 0x1999999999999a, -56)]]]))
    return out
