"""Generator of synthetic, well-formed code files (used by C05, C06, C07; not produced by asl).

A generated file is JSON: dict(name, offset, recs=[...]) where a record is
  dict(kind='data', cpu, seg, gran, addr, data=<hex string>, form='long'|'short')
  dict(kind='entry', addr)
"""
from . import pfile

# (cpu id, granularity in CODE, family) - ids from doc/file-formats.md
CPUS_G1 = [0x11, 0x51, 0x31, 0x61, 0x01, 0x63, 0x41, 0x42, 0x3f, 0x62, 0x79]
CPUS_G2 = [0x70, 0x71, 0x3b, 0x74]
CPUS_G4 = [0x76, 0x09]


def to_records(jrecs):
    out = []
    for r in jrecs:
        if r["kind"] == "data":
            out.append(pfile.data(r["cpu"], r["addr"], bytes.fromhex(r["data"]), r["seg"], r["gran"], r["form"]))
        elif r["kind"] == "entry":
            out.append(pfile.entry(r["addr"]))
    return out


def file_bytes(jfile):
    return pfile.build(to_records(jfile["recs"]))


def gen_payload(d, n, counter):
    """n bytes; a running counter pattern XORed with a drawn byte so shifts/duplications show"""
    x = d.int(0, 255)
    return bytes(((counter[0] + i) * 7 + x) & 0xff for i in range(n))


def gen_file(d, name, *, gran, cpus, base_choices, max_recs=5, len_choices=None, segs=(1,), entry_p=0.3,
             allow_short=True, offset_p=0.15, counter=None, max_off=0x200):
    counter = counter if counter is not None else [0]
    nrec = d.int(1, max_recs)
    recs = []
    cur = d.choice(base_choices)
    for _ in range(nrec):
        cpu = d.choice(cpus)
        seg = d.choice(segs)
        mode = d.weighted([(5, "gap"), (3, "adjacent"), (2, "overlap"), (1, "jump")])
        if mode == "gap":
            cur += d.int(1, 40)
        elif mode == "overlap":
            cur = max(0, cur - d.int(1, 12))
        elif mode == "jump":
            cur = d.choice(base_choices) + d.int(0, 64)
        if len_choices:
            units = d.choice(len_choices)
        else:
            lo, hi = d.weighted([(6, (1, 24)), (2, (25, 80)), (1, (250, 260)), (1, (0, 0))])
            units = d.int(lo, hi)
        g = gran      # callers keep (cpu, seg) combinations whose documented granularity is `gran`
        data = gen_payload(d, units * g, counter)
        counter[0] += units * g + 1
        form = "short" if (allow_short and seg == 1 and g == pfile.implied_gran(cpu, 1) and d.bool(0.3)) else "long"
        recs.append(dict(kind="data", cpu=cpu, seg=seg, gran=g, addr=cur & 0xffffffff, data=data.hex(), form=form))
        cur += units
    if d.bool(entry_p):
        recs.append(dict(kind="entry", addr=d.int(0, 0xffff)))
    off = d.int(1, max_off) if d.bool(offset_p) else None
    return dict(name=name, offset=off, recs=recs)
