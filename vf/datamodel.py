"""Reference encoders for data-definition statements (property C09).

Everything in here is written from the manual (doc/pseudo-instructions.md: DC/DS, DB..DT/DN, BYT/FCB, ADR/FDB,
FCC, DFS, BYTE/WORD/BSS, DATA/RES, PADDING, PACKING, BIGENDIAN, CHARSET; doc/assembler-usage.md: integer,
string and character constants) and from the public IEEE-754 / x87-68881 extended format definitions.
Nothing is derived from asl's output.

  int_field(v, nbytes, big)     two's complement field; accepted range -2^(n-1) .. 2^n-1, else Invalid('range')
  int_bits(v, bits)             the same for odd widths (4, 14 bits): returns the masked value
  ieee_bits(x, ebits, mbits)    exact round-to-nearest-even encoding of a double into a binary interchange
                                format (half 5/10, single 8/23, double 11/52); Invalid('range') when the rounded
                                value is not finite
  ext_canonical(x) / ext_decode(b)   80-bit extended with explicit integer bit
  CharMap                       CHARSET translation table
  str_tokens_*                  rendering of string literals with the documented escapes
"""
import math
import struct
from fractions import Fraction


class Invalid(Exception):
    """the statement must be rejected with an error; kind: range | mix | type"""

    def __init__(self, kind, why=""):
        Exception.__init__(self, kind + ": " + why)
        self.kind = kind
        self.why = why


# ------------------------------------------------------------------ integers

def int_limits(bits):
    return -(1 << (bits - 1)), (1 << bits) - 1


def int_bits(v, bits):
    lo, hi = int_limits(bits)
    if not lo <= v <= hi:
        raise Invalid("range", "%d not in %d..%d" % (v, lo, hi))
    return v & ((1 << bits) - 1)


def int_field(v, nbytes, big):
    return int_bits(v, 8 * nbytes).to_bytes(nbytes, "big" if big else "little")


# ------------------------------------------------------------------ IEEE binary formats

HALF, SINGLE, DOUBLE = (5, 10), (8, 23), (11, 52)
FMT_NAME = {HALF: "half", SINGLE: "single", DOUBLE: "double"}


def _floor_log2(a):
    """floor(log2(a)) for a positive Fraction"""
    e = a.numerator.bit_length() - a.denominator.bit_length()
    # 2^e <= a < 2^(e+1) may be off by one
    if Fraction(2) ** e > a:
        e -= 1
    elif Fraction(2) ** (e + 1) <= a:
        e += 1
    return e


def ieee_bits(x, fmt):
    """x: python float (finite).  Returns the integer bit pattern of the nearest value of the format
    (ties to even); raises Invalid('range') if that would be an infinity."""
    ebits, mbits = fmt
    if x != x or x in (math.inf, -math.inf):
        raise ValueError("finite values only")
    sign = 1 if math.copysign(1.0, x) < 0 else 0
    top = sign << (ebits + mbits)
    a = abs(Fraction(x))
    if a == 0:
        return top
    bias = (1 << (ebits - 1)) - 1
    emin = 1 - bias
    e = max(_floor_log2(a), emin)
    q = a / (Fraction(2) ** (e - mbits))
    n = q.numerator // q.denominator
    rem = q - n
    if rem > Fraction(1, 2) or (rem == Fraction(1, 2) and (n & 1)):
        n += 1
    if n == (1 << (mbits + 1)):
        n >>= 1
        e += 1
    if e > bias:
        raise Invalid("range", "%r overflows %s" % (x, FMT_NAME.get(fmt, fmt)))
    if n < (1 << mbits):
        return top | n                      # subnormal (or zero after rounding)
    return top | ((e + bias) << mbits) | (n - (1 << mbits))


def ieee_bytes(x, fmt, big):
    ebits, mbits = fmt
    n = (1 + ebits + mbits) // 8
    return ieee_bits(x, fmt).to_bytes(n, "big" if big else "little")


def ieee_value(bits, fmt):
    """exact value (Fraction) of a finite bit pattern, sign included"""
    ebits, mbits = fmt
    sign = -1 if bits >> (ebits + mbits) else 1
    ef = (bits >> mbits) & ((1 << ebits) - 1)
    m = bits & ((1 << mbits) - 1)
    bias = (1 << (ebits - 1)) - 1
    if ef == (1 << ebits) - 1:
        raise ValueError("not finite")
    if ef == 0:
        return sign * Fraction(m) * Fraction(2) ** (1 - bias - mbits)
    return sign * Fraction((1 << mbits) | m) * Fraction(2) ** (ef - bias - mbits)


def fmt_max(fmt):
    ebits, mbits = fmt
    return float(ieee_value(((((1 << ebits) - 2) << mbits) | ((1 << mbits) - 1)), fmt))


def fmt_overflow_threshold(fmt):
    """smallest magnitude that rounds to infinity (max finite + half an ulp); Fraction"""
    ebits, mbits = fmt
    bias = (1 << (ebits - 1)) - 1
    return Fraction(fmt_max(fmt)) + Fraction(2) ** (bias - mbits - 1)


def float_status(x, fmt):
    """'ok' (|x| <= max finite), 'band' (above max finite but rounds to it: acceptance not settled by the
    manual), 'over' (rounds to infinity: does not fit)"""
    a = abs(Fraction(x))
    if a <= Fraction(fmt_max(fmt)):
        return "ok"
    if a < fmt_overflow_threshold(fmt):
        return "band"
    return "over"


# ------------------------------------------------------------------ 80-bit extended

def ext_canonical(x):
    """10 bytes, most significant first: sign+15 bit exponent (bias 16383), 64 bit significand with explicit
    integer bit, of the double x (always exactly representable, always a normal number or zero)"""
    sign = 0x8000 if math.copysign(1.0, x) < 0 else 0
    a = abs(Fraction(x))
    if a == 0:
        return sign.to_bytes(2, "big") + bytes(8)
    e = _floor_log2(a)
    m = a / (Fraction(2) ** (e - 63))
    assert m.denominator == 1 and (1 << 63) <= m.numerator < (1 << 64)
    return (sign | (e + 16383)).to_bytes(2, "big") + int(m.numerator).to_bytes(8, "big")


def ext_decode(b):
    """b: 10 bytes most significant first -> (sign, exponent field, significand, exact value or None for
    inf/nan).  An exponent field of 0 denotes 2^-16382 (x87 denormal), otherwise 2^(e-16383); the integer bit
    is explicit, so unnormal significands decode to what their bits say."""
    se = int.from_bytes(b[:2], "big")
    m = int.from_bytes(b[2:], "big")
    sign = -1 if se & 0x8000 else 1
    e = se & 0x7fff
    if e == 0x7fff:
        return sign, e, m, None
    ee = e if e else 1
    return sign, e, m, sign * Fraction(m) * Fraction(2) ** (ee - 16383 - 63)


# ------------------------------------------------------------------ float literal text

def fmt_float(x):
    """decimal text '[-]d.ddd[e[-]dd]' that strtod()/float() map back to exactly x; always has a decimal point
    so that the assembler does not take it for an integer (manual: 'dummy post decimal positions')"""
    s = repr(abs(x))
    if "e" in s:
        man, ex = s.split("e")
        ex = int(ex)
    else:
        man, ex = s, None
    if "." not in man:
        man += ".0"
    t = man if ex is None else "%se%d" % (man, ex)
    if float(t) != abs(x):
        raise AssertionError("float text does not round-trip: %r -> %s" % (x, t))
    return ("-" if math.copysign(1.0, x) < 0 else "") + t


# ------------------------------------------------------------------ CHARSET

class CharMap:
    """translation table of CHARSET: initially 1:1"""

    def __init__(self):
        self.t = list(range(256))

    def copy(self):
        c = CharMap()
        c.t = list(self.t)
        return c

    def apply(self, op):
        k = op[0]
        if k == "reset":                    # CHARSET without parameters
            self.t = list(range(256))
        elif k == "one":                    # CHARSET idx,val
            self.t[op[1]] = op[2]
        elif k == "range":                  # CHARSET start,stop,tstart
            for z in range(op[1], op[2] + 1):
                self.t[z] = op[3] + (z - op[1])
        elif k == "str":                    # CHARSET start,"string"
            for i, c in enumerate(bytes.fromhex(op[2])):
                self.t[op[1] + i] = c
        else:
            raise ValueError(op)

    def map(self, codes):
        return [self.t[c] for c in codes]

    def identity(self):
        return self.t == list(range(256))


def multichar_value(codes, cmap):
    """'AB' == $4142 (assembler-usage.md, multi character constants); characters go through CHARSET"""
    v = 0
    for c in cmap.map(codes):
        v = (v << 8) | c
    return v


# ------------------------------------------------------------------ string literal rendering

# characters written literally inside quotes.  Not written literally: both quote characters and the backslash
# (escape syntax), braces (expression interpolation), NUL (documented as not portable), bytes >= 127.
RAW_CHARS = [c for c in range(0x20, 0x7f) if chr(c) not in "\"'\\{}"]
NAMED = {8: "b", 7: "a", 27: "e", 9: "t", 10: "n", 13: "r", 92: "\\", 39: "H", 34: "I"}


def _is_digit(c):
    return c is not None and 0x30 <= c <= 0x39


def _is_hex(c):
    return c is not None and (0x30 <= c <= 0x39 or 0x41 <= c <= 0x46 or 0x61 <= c <= 0x66)


def str_codes(tokens):
    return [t if isinstance(t, int) else t[0] for t in tokens]


def render_string(tokens, quote):
    """tokens: list of code (written literally) | [code, style]; style in named/NAMED/dec/hex/HEX/oct/x1.
    Escapes whose extent would be ambiguous before a following (hex) digit fall back to a form of fixed
    length (three decimal digits or two hex digits)."""
    out = []
    for i, t in enumerate(tokens):
        if isinstance(t, int):
            if t not in RAW_CHARS:
                raise ValueError("character %d cannot be written literally" % t)
            out.append(chr(t))
            continue
        c, style = t
        nxt = tokens[i + 1] if i + 1 < len(tokens) else None
        nraw = nxt if isinstance(nxt, int) else None      # an escape always starts with a backslash
        if c == 0:
            raise ValueError("NUL is excluded")
        if style in ("named", "NAMED") and c in NAMED:
            n = NAMED[c]
            out.append("\\" + (n.upper() if style == "NAMED" else n.lower()))
        elif style == "dec" and (c >= 100 or not _is_digit(nraw)):
            out.append("\\%d" % c)
        elif style == "oct" and c <= 0o77 and not _is_digit(nraw):
            out.append("\\0%o" % c)
        elif style == "x1" and c < 16 and not _is_hex(nraw):
            out.append("\\x%x" % c)
        elif style == "HEX":
            out.append("\\x%02X" % c)
        else:
            out.append("\\x%02x" % c)
    return quote + "".join(out) + quote


# ------------------------------------------------------------------ integer literal rendering

def render_int(v, fmt, syntax):
    """fmt: d decimal, h hex, b binary, o octal in the target's default integer syntax (moto/intel/c)"""
    neg = v < 0
    a = -v if neg else v
    if fmt == "d":
        s = str(a)
    elif syntax == "moto":
        s = {"h": "$%x", "b": "%%%s", "o": "@%o"}[fmt] % (a if fmt != "b" else bin(a)[2:])
    elif syntax == "intel":
        if fmt == "h":
            s = "%xh" % a
            if not s[0].isdigit():
                s = "0" + s
        elif fmt == "b":
            s = bin(a)[2:] + "b"
        else:
            s = "%oo" % a
    elif syntax == "c":
        s = {"h": "0x%x" % a, "b": "0b" + bin(a)[2:], "o": "0%o" % a}[fmt]
        if fmt == "o" and a == 0:
            s = "0"
    else:
        raise ValueError(syntax)
    return ("-" if neg else "") + s


# ------------------------------------------------------------------ self test (cross-check with struct)

def selftest():
    import random
    rnd = random.Random(20261001)           # self-test only; never used for case generation
    samples = [0.0, -0.0, 1.0, -1.5, 65504.0, 65519.99, 1e-7, 5.960464477539063e-08, 2.9802322387695312e-08,
               3.4028234663852886e38, 1.401298464324817e-45, 7.006492321624085e-46, 2.2250738585072014e-308,
               5e-324, 1.7976931348623157e308, 0.1, 1 / 3.0, 6.103515625e-05, 6.097555160522461e-05]
    for _ in range(4000):
        samples.append(struct.unpack("<d", struct.pack("<Q", rnd.getrandbits(64)))[0])
        samples.append(float(struct.unpack("<f", struct.pack("<I", rnd.getrandbits(32)))[0]))
        samples.append(float(struct.unpack("<e", struct.pack("<H", rnd.getrandbits(16)))[0]) * (1 + rnd.random() / 512))
    for x in samples:
        if x != x or x in (math.inf, -math.inf):
            continue
        for fmt, code, n in ((HALF, "e", 2), (SINGLE, "f", 4), (DOUBLE, "d", 8)):
            try:
                exp = int.from_bytes(struct.pack(">" + code, x), "big")
            except OverflowError:
                exp = None
            try:
                got = ieee_bits(x, fmt)
            except Invalid:
                got = None
            if got != exp:
                raise AssertionError("ieee_bits(%r,%s)=%r struct says %r" % (x, FMT_NAME[fmt], got, exp))
        b = ext_canonical(x)
        s, e, m, v = ext_decode(b)
        if v != Fraction(x):
            raise AssertionError("extended round trip failed for %r" % x)
        if fmt_float(x) and float(fmt_float(x)) != x:
            raise AssertionError("fmt_float %r" % x)
    assert int_field(-128, 1, True) == b"\x80" and int_field(255, 1, True) == b"\xff"
    assert int_field(-2, 2, False) == b"\xfe\xff" and int_field(0x1234, 2, True) == b"\x12\x34"
    for bad in (256, -129):
        try:
            int_field(bad, 1, True)
        except Invalid:
            pass
        else:
            raise AssertionError("range")
    assert float_status(65504.0, HALF) == "ok" and float_status(65519.0, HALF) == "band"
    assert float_status(65520.0, HALF) == "over"
    return True


if __name__ == "__main__":
    print(selftest())
