"""Reference encoders for data-definition statements (property C09).

Everything in here is written from the manual (doc/pseudo-instructions.md: DC/DS, DB..DT/DN, BYT/FCB, ADR/FDB,
FCC, DFS, BYTE/WORD/BSS, DATA/RES, PADDING, PACKING, BIGENDIAN, CHARSET; doc/assembler-usage.md: integer,
string and character constants) and from the public IEEE-754 / x87-68881 extended format definitions.
Nothing is derived from asl's output.

  int_field(v, nbytes, big)     two's complement field; accepted range -2^(n-1) .. 2^n-1, else Invalid('range')
  int_bits(v, bits)             the same for odd widths (4, 14 bits): returns the masked value
  ieee_bits(x, ebits, mbits)    exact round-to-nearest-even encoding of a double into a binary interchange
                                format (half 5/10, single 8/23, double 11/52); Invalid('range') when the rounded
                                value is not finite
  ext_canonical(x) / ext_decode(b)   80-bit extended with explicit integer bit
  CharMap                       CHARSET translation table
  str_tokens_*                  rendering of string literals with the documented escapes
"""
import math
import struct
from fractions import Fraction


class Invalid(Exception):
    """the statement must be rejected with an error; kind: range | mix | type"""

    def __init__(self, kind, why=""):
        Exception.__init__(self, kind + ": " + why)
        self.kind = kind
        self.why = why


# ------------------------------------------------------------------ integers

def int_limits(bits):
    return -(1 << (bits - 1)), (1 << bits) - 1


def int_bits(v, bits):
    lo, hi = int_limits(bits)
    if not lo <= v <= hi:
        raise Invalid("range", "%d not in %d..%d" % (v, lo, hi))
    return v & ((1 << bits) - 1)


def int_field(v, nbytes, big):
    return int_bits(v, 8 * nbytes).to_bytes(nbytes, "big" if big else "little")


# ------------------------------------------------------------------ IEEE binary formats

HALF, SINGLE, DOUBLE = (5, 10), (8, 23), (11, 52)
FMT_NAME = {HALF: "half", SINGLE: "single", DOUBLE: "double"}


def _floor_log2(a):
    """floor(log2(a)) for a positive Fraction"""
    e = a.numerator.bit_length() - a.denominator.bit_length()
    # 2^e <= a < 2^(e+1) may be off by one
    if Fraction(2) ** e > a:
        e -= 1
    elif Fraction(2) ** (e + 1) <= a:
        e += 1
    return e


def ieee_bits(x, fmt):
    """x: python float (finite).  Returns the integer bit pattern of the nearest value of the format
    (ties to even); raises Invalid('range') if that would be an infinity."""
    ebits, mbits = fmt
    if x != x or x in (math.inf, -math.inf):
        raise ValueError("finite values only")
    sign = 1 if math.copysign(1.0, x) < 0 else 0
    top = sign << (ebits + mbits)
    a = abs(Fraction(x))
    if a == 0:
        return top
    bias = (1 << (ebits - 1)) - 1
    emin = 1 - bias
    e = max(_floor_log2(a), emin)
    q = a / (Fraction(2) ** (e - mbits))
    n = q.numerator // q.denominator
    rem = q - n
    if rem > Fraction(1, 2) or (rem == Fraction(1, 2) and (n & 1)):
        n += 1
    if n == (1 << (mbits + 1)):
        n >>= 1
        e += 1
    if e > bias:
        raise Invalid("range", "%r overflows %s" % (x, FMT_NAME.get(fmt, fmt)))
    if n < (1 << mbits):
        return top | n                      # subnormal (or zero after rounding)
    return top | ((e + bias) << mbits) | (n - (1 << mbits))


def ieee_bytes(x, fmt, big):
    ebits, mbits = fmt
    n = (1 + ebits + mbits) // 8
    return ieee_bits(x, fmt).to_bytes(n, "big" if big else "little")


def ieee_value(bits, fmt):
    """exact value (Fraction) of a finite bit pattern, sign included"""
    ebits, mbits = fmt
    sign = -1 if bits >> (ebits + mbits) else 1
    ef = (bits >> mbits) & ((1 << ebits) - 1)
    m = bits & ((1 << mbits) - 1)
    bias = (1 << (ebits - 1)) - 1
    if ef == (1 << ebits) - 1:
        raise ValueError("not finite")
    if ef == 0:
        return sign * Fraction(m) * Fraction(2) ** (1 - bias - mbits)
    return sign * Fraction((1 << mbits) | m) * Fraction(2) ** (ef - bias - mbits)


def fmt_max(fmt):
    ebits, mbits = fmt
    return float(ieee_value(((((1 << ebits) - 2) << mbits) | ((1 << mbits) - 1)), fmt))


def fmt_overflow_threshold(fmt):
    """smallest magnitude that rounds to infinity (max finite + half an ulp); Fraction"""
    ebits, mbits = fmt
    bias = (1 << (ebits - 1)) - 1
    return Fraction(fmt_max(fmt)) + Fraction(2) ** (bias - mbits - 1)


def float_status(x, fmt):
    """'ok' (|x| <= max finite), 'band' (above max finite but rounds to it: acceptance not settled by the
    manual), 'over' (rounds to infinity: does not fit)"""
    a = abs(Fraction(x))
    if a <= Fraction(fmt_max(fmt)):
        return "ok"
    if a < fmt_overflow_threshold(fmt):
        return "band"
    return "over"


# ------------------------------------------------------------------ 80-bit extended

def ext_canonical(x):
    """10 bytes, most significant first: sign+15 bit exponent (bias 16383), 64 bit significand with explicit
    integer bit, of the double x (always exactly representable, always a normal number or zero)"""
    sign = 0x8000 if math.copysign(1.0, x) < 0 else 0
    a = abs(Fraction(x))
    if a == 0:
        return sign.to_bytes(2, "big") + bytes(8)
    e = _floor_log2(a)
    m = a / (Fraction(2) ** (e - 63))
    assert m.denominator == 1 and (1 << 63) <= m.numerator < (1 << 64)
    return (sign | (e + 16383)).to_bytes(2, "big") + int(m.numerator).to_bytes(8, "big")


def ext_decode(b):
    """b: 10 bytes most significant first -> (sign, exponent field, significand, exact value or None for
    inf/nan).  An exponent field of 0 denotes 2^-16382 (x87 denormal), otherwise 2^(e-16383); the integer bit
    is explicit, so unnormal significands decode to what their bits say."""
    se = int.from_bytes(b[:2], "big")
    m = int.from_bytes(b[2:], "big")
    sign = -1 if se & 0x8000 else 1
    e = se & 0x7fff
    if e == 0x7fff:
        return sign, e, m, None
    ee = e if e else 1
    return sign, e, m, sign * Fraction(m) * Fraction(2) ** (ee - 16383 - 63)


# ------------------------------------------------------------------ float literal text

def fmt_float(x):
    """decimal text '[-]d.ddd[e[-]dd]' that strtod()/float() map back to exactly x; always has a decimal point
    so that the assembler does not take it for an integer (manual: 'dummy post decimal positions')"""
    s = repr(abs(x))
    if "e" in s:
        man, ex = s.split("e")
        ex = int(ex)
    else:
        man, ex = s, None
    if "." not in man:
        man += ".0"
    t = man if ex is None else "%se%d" % (man, ex)
    if float(t) != abs(x):
        raise AssertionError("float text does not round-trip: %r -> %s" % (x, t))
    return ("-" if math.copysign(1.0, x) < 0 else "") + t


# ------------------------------------------------------------------ CHARSET

class CharMap:
    """translation table of CHARSET: initially 1:1"""

    def __init__(self):
        self.t = list(range(256))

    def copy(self):
        c = CharMap()
        c.t = list(self.t)
        return c

    def apply(self, op):
        k = op[0]
        if k == "reset":                    # CHARSET without parameters
            self.t = list(range(256))
        elif k == "one":                    # CHARSET idx,val
            self.t[op[1]] = op[2]
        elif k == "range":                  # CHARSET start,stop,tstart
            for z in range(op[1], op[2] + 1):
                self.t[z] = op[3] + (z - op[1])
        elif k == "str":                    # CHARSET start,"string"
            for i, c in enumerate(bytes.fromhex(op[2])):
                self.t[op[1] + i] = c
        elif k == "file":                   # CHARSET "file": the first 256 bytes of the file are the new table
            self.t = list(charset_file(op[1], op[2]))
        else:
            raise ValueError(op)

    def map(self, codes):
        return [self.t[c] for c in codes]

    def identity(self):
        return self.t == list(range(256))


def charset_file(mul, add):
    """content of the translation table file cs<mul>_<add>.tab (a permutation of 0..255, mul odd)"""
    return bytes((c * mul + add) & 0xff for c in range(256))


def multichar_value(codes, cmap):
    """'AB' == $4142 (assembler-usage.md, multi character constants); characters go through CHARSET"""
    v = 0
    for c in cmap.map(codes):
        v = (v << 8) | c
    return v


# ------------------------------------------------------------------ string literal rendering

# characters written literally inside quotes.  Not written literally: both quote characters and the backslash
# (escape syntax), braces (expression interpolation), NUL (documented as not portable), bytes >= 127.
RAW_CHARS = [c for c in range(0x20, 0x7f) if chr(c) not in "\"'\\{}"]
NAMED = {8: "b", 7: "a", 27: "e", 9: "t", 10: "n", 13: "r", 92: "\\", 39: "H", 34: "I"}


def _is_digit(c):
    return c is not None and 0x30 <= c <= 0x39


def _is_hex(c):
    return c is not None and (0x30 <= c <= 0x39 or 0x41 <= c <= 0x46 or 0x61 <= c <= 0x66)


def str_codes(tokens):
    return [t if isinstance(t, int) else t[0] for t in tokens]


def render_string(tokens, quote):
    """tokens: list of code (written literally) | [code, style]; style in named/NAMED/dec/hex/HEX/oct/x1.
    Escapes whose extent would be ambiguous before a following (hex) digit fall back to a form of fixed
    length (three decimal digits or two hex digits)."""
    out = []
    for i, t in enumerate(tokens):
        if isinstance(t, int):
            if t not in RAW_CHARS:
                raise ValueError("character %d cannot be written literally" % t)
            out.append(chr(t))
            continue
        c, style = t
        nxt = tokens[i + 1] if i + 1 < len(tokens) else None
        nraw = nxt if isinstance(nxt, int) else None      # an escape always starts with a backslash
        if c == 0:
            raise ValueError("NUL is excluded")
        if style in ("named", "NAMED") and c in NAMED:
            n = NAMED[c]
            out.append("\\" + (n.upper() if style == "NAMED" else n.lower()))
        elif style == "dec" and (c >= 100 or not _is_digit(nraw)):
            out.append("\\%d" % c)
        elif style == "oct" and c <= 0o77 and not _is_digit(nraw):
            out.append("\\0%o" % c)
        elif style == "x1" and c < 16 and not _is_hex(nraw):
            out.append("\\x%x" % c)
        elif style == "HEX":
            out.append("\\x%02X" % c)
        else:
            out.append("\\x%02x" % c)
    return quote + "".join(out) + quote


# ------------------------------------------------------------------ integer literal rendering

def render_int(v, fmt, syntax):
    """fmt: d decimal, h hex, b binary, o octal in the target's default integer syntax (moto/intel/c)"""
    neg = v < 0
    a = -v if neg else v
    if fmt == "d":
        s = str(a)
    elif syntax == "moto":
        s = {"h": "$%x", "b": "%%%s", "o": "@%o"}[fmt] % (a if fmt != "b" else bin(a)[2:])
    elif syntax == "intel":
        if fmt == "h":
            s = "%xh" % a
            if not s[0].isdigit():
                s = "0" + s
        elif fmt == "b":
            s = bin(a)[2:] + "b"
        else:
            s = "%oo" % a
    elif syntax == "c":
        s = {"h": "0x%x" % a, "b": "0b" + bin(a)[2:], "o": "0%o" % a}[fmt]
        if fmt == "o" and a == 0:
            s = "0"
    else:
        raise ValueError(syntax)
    return ("-" if neg else "") + s


# ------------------------------------------------------------------ self test (cross-check with struct)

def selftest():
    import random
    rnd = random.Random(20261001)           # self-test only; never used for case generation
    samples = [0.0, -0.0, 1.0, -1.5, 65504.0, 65519.99, 1e-7, 5.960464477539063e-08, 2.9802322387695312e-08,
               3.4028234663852886e38, 1.401298464324817e-45, 7.006492321624085e-46, 2.2250738585072014e-308,
               5e-324, 1.7976931348623157e308, 0.1, 1 / 3.0, 6.103515625e-05, 6.097555160522461e-05]
    for _ in range(4000):
        samples.append(struct.unpack("<d", struct.pack("<Q", rnd.getrandbits(64)))[0])
        samples.append(float(struct.unpack("<f", struct.pack("<I", rnd.getrandbits(32)))[0]))
        samples.append(float(struct.unpack("<e", struct.pack("<H", rnd.getrandbits(16)))[0]) * (1 + rnd.random() / 512))
    for x in samples:
        if x != x or x in (math.inf, -math.inf):
            continue
        for fmt, code, n in ((HALF, "e", 2), (SINGLE, "f", 4), (DOUBLE, "d", 8)):
            try:
                exp = int.from_bytes(struct.pack(">" + code, x), "big")
            except OverflowError:
                exp = None
            try:
                got = ieee_bits(x, fmt)
            except Invalid:
                got = None
            if got != exp:
                raise AssertionError("ieee_bits(%r,%s)=%r struct says %r" % (x, FMT_NAME[fmt], got, exp))
        b = ext_canonical(x)
        s, e, m, v = ext_decode(b)
        if v != Fraction(x):
            raise AssertionError("extended round trip failed for %r" % x)
        if fmt_float(x) and float(fmt_float(x)) != x:
            raise AssertionError("fmt_float %r" % x)
    assert int_field(-128, 1, True) == b"\x80" and int_field(255, 1, True) == b"\xff"
    assert int_field(-2, 2, False) == b"\xfe\xff" and int_field(0x1234, 2, True) == b"\x12\x34"
    for bad in (256, -129):
        try:
            int_field(bad, 1, True)
        except Invalid:
            pass
        else:
            raise AssertionError("range")
    assert float_status(65504.0, HALF) == "ok" and float_status(65519.0, HALF) == "band"
    assert float_status(65520.0, HALF) == "over"
    return True


if __name__ == "__main__":
    print(selftest())


# ====================================================================== statement-level reference model
#
# A statement is a JSON value  {"op": mnemonic, "sz": attribute or "", "args": [arg...]}  with
#   ["i", value, fmt]      integer literal           ["f", text]          floating point literal
#   ["s", tokens]          "string"                  ["c", tokens]        'character constant / string'
#   ["q"]                  ?  (reservation)          ["dup", n, [args]]   n DUP (args)      (Intel style)
#   ["rep", n, arg]        [n]arg                    (Motorola style repeat count)
#
# The model returns a list of layout elements in target units:
#   ("pad",)               one padding byte (PADDING), data or reserved like the statement itself
#   ("b", bytes)           bytes (byte-granular targets)         ("r", n)       n reserved bytes
#   ("w", [words])         words (word-granular targets)         ("rw", n)      n reserved words
# or raises Invalid(kind) when the manual demands an error, or Unsettled when the manual does not settle
# the outcome (the caller then stops checking that slot).

class Unsettled(Exception):
    pass


# Zero in extended precision: the sign and the all-zero significand are compared, the exponent field is not
# (the golden images of the repository store 0.0 with the exponent of 2^-1023; both decode to zero).
EXT_ZERO_MASK = (0x8000 << 64) | ((1 << 64) - 1)


TARGETS = {
    # big: byte order of multi-byte fields; pad_default: PADDING default; slot: slot width in target units
    "68000": dict(cpu="68000", syntax="moto", pc="*", gran=1, fam="moto16", big=True, pad_default=True,
                  has_padding=True, base=0x10000, slot=0x400, maxlen=0x180, bigmax=0x3c0),
    "6809": dict(cpu="6809", syntax="moto", pc="*", gran=1, fam="moto8+16", big=True, pad_default=False,
                 has_padding=True, base=0x1000, slot=0x400, maxlen=0xc0, bigmax=0x3c0),
    "6502": dict(cpu="6502", syntax="moto", pc="*", gran=1, fam="moto8", big=False, pad_default=False,
                 has_padding=False, base=0x1000, slot=0x400, maxlen=0xc0, bigmax=0x3c0),
    "z80": dict(cpu="z80", syntax="intel", pc="$", gran=1, fam="intel", big=False, pad_default=False,
                has_padding=False, base=0x1000, slot=0x400, maxlen=0xc0, bigmax=0x3c0),
    "8086": dict(cpu="8086", syntax="intel", pc="$", gran=1, fam="intel", big=False, pad_default=False,
                 has_padding=False, base=0x1000, slot=0x400, maxlen=0xc0, bigmax=0x3c0),
    "8051": dict(cpu="8051", syntax="intel", pc="$", gran=1, fam="intel", big=False, pad_default=False,
                 has_padding=False, has_bigendian=True, base=0x1000, slot=0x400, maxlen=0xc0, bigmax=0x3c0),
    "msp430": dict(cpu="msp430", syntax="intel", pc="$", gran=1, fam="msp", big=False, pad_default=False,
                   has_padding=True, base=0x1000, slot=0x400, maxlen=0xc0, bigmax=0x3c0),
    "16c84": dict(cpu="16c84", syntax="moto", pc="*", gran=2, fam="pic", big=False, pad_default=False,
                  has_padding=False, base=0x10, slot=0x18, maxlen=0xc, minroom=5),
    "avr": dict(cpu="atmega128", syntax="c", pc="*", gran=2, fam="avr", big=False, pad_default=False,
                has_padding=False, has_packing=True, base=0x100, slot=0x200, maxlen=0x60, bigmax=0x1e0),
    "cop8": dict(cpu="cop87l84", syntax="c", pc=".", gran=1, fam="intel", big=False, pad_default=False,
                 has_padding=False, base=0x100, slot=0xc0, maxlen=0x50),
    "320c25": dict(cpu="320c25", syntax="intel", pc="$", gran=2, fam="ti", big=False, pad_default=False,
                   has_padding=False, base=0x100, slot=0x200, maxlen=0x60, bigmax=0x1e0),
}

MOTO_SIZES = {"B": 1, "W": 2, "L": 4, "Q": 8, "C": 2, "S": 4, "D": 8, "X": 12, "": 2}
MOTO_FLOAT = {"C": HALF, "S": SINGLE, "D": DOUBLE, "X": "ext"}
INTEL_BITS = {"dn": 4, "db": 8, "dw": 16, "dd": 32, "dq": 64, "dt": 80, "defb": 8, "defw": 16,
              "byte": 8, "addr": 8, "word": 16, "addrw": 16}        # the last four: COP8 aliases of DB/DW
COP8_ENDIAN = {"byte": False, "word": False, "addr": True, "addrw": True}
INTEL_FLOAT = {16: HALF, 32: SINGLE, 64: DOUBLE, 80: "ext"}


class State:
    def __init__(self, tgt):
        self.tgt = tgt
        self.t = TARGETS[tgt]
        # The default of PADDING is not relied upon (manual: off except for 680x0; behaviour and the golden
        # tests t_msppad/t_avr8: on for MSP430, 6809, ...): generated programs always state it explicitly.
        self.padding = self.t["pad_default"]
        self.big = self.t["big"]
        self.packing = False
        # CODEPAGE: named translation tables; CHARSET modifies the active one
        self.pages = {"STANDARD": CharMap()}
        self.page = "STANDARD"

    @property
    def cmap(self):
        return self.pages[self.page]

    def directive(self, d):
        k = d["dir"]
        if k == "padding":
            self.padding = bool(d["on"])
        elif k == "bigendian":
            self.big = bool(d["on"])
        elif k == "packing":
            self.packing = bool(d["on"])
        elif k == "charset":
            self.cmap.apply(d["op"])
        elif k == "codepage":
            # "the name of the set to be used hereafter and optionally the name of another table that defines its
            # initial contents (... only has a meaning for the first switch to the table ...).  If the second
            # parameter is missing, the initial contents of the new table are copied from the previously active set"
            name, src = d["name"], d.get("src")
            if name not in self.pages:
                if src is not None and src not in self.pages:
                    raise ValueError("codepage source " + src)
                self.pages[name] = (self.pages[src] if src is not None else self.cmap).copy()
            self.page = name
        else:
            raise ValueError(d)


def float_bytes(x, fmt, big):
    """bytes of the float field; fmt 'ext' -> 10 bytes"""
    if fmt == "ext":
        b = ext_canonical(x)
        return b if big else b[::-1]
    st = float_status(x, fmt)
    if st == "band":
        raise Unsettled("float above max finite that still rounds to it")
    return ieee_bytes(x, fmt, big)


def _is_res(arg):
    k = arg[0]
    if k == "q":
        return True
    if k == "rep":
        return _is_res(arg[2])
    return False


def _leaf_kinds(args, out):
    """set of {'res','const'} over all leaves (DUP recursion)"""
    for a in args:
        k = a[0]
        if k == "q":
            out.add("res")
        elif k == "dup":
            _leaf_kinds(a[2], out)
        elif k == "rep":
            _leaf_kinds([a[2]], out)
        else:
            out.add("const")
    return out


class Sim:
    """reference interpreter of data definition statements for one target"""

    def __init__(self, tgt, syms=None):
        self.st = State(tgt)
        self.t = self.st.t
        self.fam = self.t["fam"]
        self.syms = syms if syms is not None else []     # [[value, forward?], ...] referenced by ["y", index]

    # ---------------------------------------------------------------- element values

    def _int_or_char(self, arg, maxchars):
        """value of an integer-like argument, or None if it is a string that is laid down char by char"""
        k = arg[0]
        if k == "i":
            return arg[1]
        if k == "y":
            return self.syms[arg[1]][0]
        if k == "c":
            codes = str_codes(arg[1])
            if len(codes) <= maxchars:
                if len(codes) > 4:
                    raise Unsettled("multi character constant longer than 4 characters")
                return multichar_value(codes, self.st.cmap)
        return None

    def _chars(self, arg):
        return self.st.cmap.map(str_codes(arg[1]))

    # ---------------------------------------------------------------- Motorola DC / DS

    def _moto_dc(self, stmt, pc):
        sz = stmt["sz"].upper()
        if sz == "" and self.fam != "moto16":
            # DC section: "the default attribute is W"; assembler-usage: "omission of an attribute generally
            # leads to the usage of the natural operand size of a processor family" (8 bit CPUs: B)
            raise Unsettled("DC without attribute on an 8 bit CPU")
        size = MOTO_SIZES[sz]
        ffmt = MOTO_FLOAT.get(sz)
        kinds = _leaf_kinds(stmt["args"], set())
        out = []
        if self.st.padding and (pc & 1) and size != 1:
            out.append(("pad",))
        if kinds == {"res", "const"}:
            raise Invalid("mix", "? mixed with constants")
        for arg in stmt["args"]:
            rep = 1
            if arg[0] == "rep":
                rep, arg = arg[1], arg[2]
                if rep < 1:
                    raise Unsettled("repeat count < 1")
            k = arg[0]
            if k == "q":
                out.append(("r", rep * size))
                continue
            if ffmt:
                if k == "f":
                    x = float(arg[1])
                elif k == "i":
                    if abs(arg[1]) >= 1 << 53:
                        raise Unsettled("integer not exactly convertible")
                    x = float(arg[1])
                else:
                    raise Unsettled("string argument of a floating point DC")
                if ffmt == "ext":
                    b = ext_canonical(x)
                    b = b[:2] + b"\0\0" + b[2:]          # 96 bit memory format of the 6888x
                    if x == 0:                           # zero: sign and significand only (EXT_ZERO_MASK)
                        out.append(("b", b * rep, (b"\x80\x00" + b"\xff" * 10) * rep))
                        continue
                else:
                    if float_status(x, ffmt) == "over":
                        raise Invalid("range", "float too large")
                    b = float_bytes(x, ffmt, True)
                out.append(("b", b * rep))
                continue
            if k == "f":
                raise Invalid("type", "float in integer DC")
            v = self._int_or_char(arg, size)
            if v is not None:
                out.append(("b", int_field(v, size, True) * rep))
            else:
                b = b"".join(int_field(c, size, True) for c in self._chars(arg))
                out.append(("b", b * rep))
        return out

    def _moto_ds(self, stmt, pc):
        sz = stmt["sz"].upper()
        if sz == "" and self.fam != "moto16":
            raise Unsettled("DS without attribute on an 8 bit CPU")
        size = MOTO_SIZES[sz]
        n = stmt["args"][0][1]
        out = []
        if self.st.padding and (pc & 1) and size != 1:
            out.append(("pad",))
            pc += 1
        if n < 0:
            raise Unsettled("negative count")
        if n == 0:
            if sz not in ("W", "L", "Q", "S", "D", ""):
                raise Unsettled("DS.%s 0" % sz)
            out.append(("r", (-pc) % size))
        else:
            out.append(("r", n * size))
        return out

    # ---------------------------------------------------------------- BYT/FCB, ADR/FDB, FCC, DFS/RMB

    def _moto8(self, stmt, pc):
        op = stmt["op"].lower()
        big = self.st.big
        out = []
        if op in ("dfs", "rmb"):
            n = stmt["args"][0][1]
            if n < 1 or n > 0xffff:
                raise Unsettled("count")
            return [("r", n)]
        if self.st.padding and op in ("adr", "fdb") and (pc & 1):
            raise Unsettled("16 bit object at an odd address with PADDING ON outside DC")
        for arg in stmt["args"]:
            rep = 1
            if arg[0] == "rep":
                rep, arg = arg[1], arg[2]
                if rep < 1:
                    raise Unsettled("repeat count < 1")
            k = arg[0]
            if k == "q":
                raise Unsettled("? is documented for DC only")
            if k == "f":
                raise Invalid("type", "float")
            if op == "fcc":
                if k != "s":
                    raise Unsettled("FCC takes strings")
                out.append(("b", bytes(self._chars(arg)) * rep))
                continue
            size = 1 if op in ("byt", "fcb", "byte") else 2
            v = self._int_or_char(arg, size)
            if v is not None:
                out.append(("b", int_field(v, size, big) * rep))
            else:
                out.append(("b", b"".join(int_field(c, size, big) for c in self._chars(arg)) * rep))
        return out

    # ---------------------------------------------------------------- Intel DN/DB/DW/DD/DQ/DT with DUP, DS

    def _intel_elems(self, args, bits, depth=0, nofloat=False):
        """flat list of elements: ('v', pattern of `bits` bits) or ('r',)"""
        out = []
        for arg in args:
            k = arg[0]
            if k == "dup":
                n = arg[1]
                if n < 1:
                    raise Unsettled("DUP count < 1")
                out += self._intel_elems(arg[2], bits, depth + 1, nofloat) * n
            elif k == "q":
                out.append(("r",))
            elif k == "f":
                ffmt = INTEL_FLOAT.get(bits)
                if ffmt is None:
                    raise Invalid("type", "float in DN/DB")
                if nofloat:
                    raise Unsettled("float in a COP8 alias of DW (manual: alias; behaviour: integers only)")
                x = float(arg[1])
                if ffmt == "ext":
                    out.append(("v", int.from_bytes(ext_canonical(x), "big"), EXT_ZERO_MASK if x == 0 else None))
                else:
                    if float_status(x, ffmt) == "over":
                        raise Invalid("range", "float too large")
                    if float_status(x, ffmt) == "band":
                        raise Unsettled("float band")
                    out.append(("v", ieee_bits(x, ffmt)))
            else:
                if bits == 4 and k not in ("i", "y"):
                    raise Unsettled("DN takes integers")
                v = self._int_or_char(arg, min(bits // 8, 8) if bits >= 8 else 0)
                if v is None:
                    if bits == 80:
                        raise Unsettled("string in DT")
                    for c in self._chars(arg):
                        out.append(("v", int_bits(c, bits)))
                elif bits == 80:
                    if abs(v) >= 1 << 53 or k != "i":
                        raise Unsettled("integer in DT")
                    out.append(("v", int.from_bytes(ext_canonical(float(v)), "big"), EXT_ZERO_MASK if v == 0 else None))
                elif bits == 64:
                    if not -(1 << 63) < v < (1 << 63):
                        raise Unsettled("64 bit literal outside the signed range")
                    out.append(("v", v & ((1 << 64) - 1)))
                else:
                    out.append(("v", int_bits(v, bits)))
        return out

    def _intel(self, stmt, pc):
        op = stmt["op"].lower()
        gran = self.t["gran"]
        big = self.st.big
        if self.st.tgt == "cop8":
            if op in COP8_ENDIAN:
                big = COP8_ENDIAN[op]
            if op in ("dsb", "dsw"):
                n = stmt["args"][0][1]
                if n < 1 or n > 0x7fff:
                    raise Unsettled("count")
                return [("r", n * (2 if op == "dsw" else 1))]
            if op in ("fb", "fw"):
                n = stmt["args"][0][1]
                if n < 1 or n > 0x200:
                    raise Unsettled("count")
                a = stmt["args"][1]
                if a[0] == "f":
                    raise Invalid("type", "float")
                v = self._int_or_char(a, 0)
                if v is None:
                    raise Unsettled("fill value")
                return [("b", int_field(v, 2 if op == "fw" else 1, False) * n)]
        if op == "ds":
            n = stmt["args"][0][1]
            if n < 1:
                raise Unsettled("count")
            return [("r", n)] if gran == 1 else [("rw", n)]
        bits = INTEL_BITS[op]
        kinds = _leaf_kinds(stmt["args"], set())
        if kinds == {"res", "const"}:
            raise Invalid("mix", "? mixed with constants")
        elems = self._intel_elems(stmt["args"], bits, 0, self.st.tgt == "cop8" and op in COP8_ENDIAN)
        res = kinds == {"res"}
        unit = 8 * gran                       # bits per addressable unit
        if bits < unit:
            per = unit // bits
            nunits = (len(elems) + per - 1) // per
            if res:
                return [("r" if gran == 1 else "rw", nunits)]
        elif res:
            return [("r" if gran == 1 else "rw", (bits // unit) * len(elems))]
        full = (1 << bits) - 1
        vals = self._intel_pack([e[1] for e in elems], bits, gran, big)
        masks = None
        if any(len(e) > 2 and e[2] is not None for e in elems):
            masks = self._intel_pack([(e[2] if len(e) > 2 and e[2] is not None else full) for e in elems],
                                     bits, gran, big)
        if gran == 1:
            return [("b", bytes(vals), bytes(masks) if masks else None)]
        return [("w", vals, masks)]

    @staticmethod
    def _intel_pack(pats, bits, gran, big):
        """list of `bits` wide patterns -> list of addressable units (bytes or 16 bit words)"""
        unit = 8 * gran
        out = []
        if bits >= unit:
            # whole units per element; multi-unit elements in target order
            per = bits // unit
            for p in pats:
                us = [(p >> (unit * i)) & ((1 << unit) - 1) for i in range(per)]     # least significant first
                out += us[::-1] if big else us
            return out
        # several elements per unit: the least significant part is filled first on little endian targets,
        # a partly filled last unit is padded (with zero)
        per = unit // bits
        for u in range(0, len(pats), per):
            acc = 0
            for j, p in enumerate(pats[u:u + per]):
                pos = (per - 1 - j) if big else j
                acc |= p << (bits * pos)
            out.append(acc)
        return out

    # ---------------------------------------------------------------- MSP430 BYTE / WORD / BSS

    def _msp(self, stmt, pc):
        op = stmt["op"].lower()
        if op == "bss":
            n = stmt["args"][0][1]
            if n < 1 or n > 0x7fff:
                raise Unsettled("count")
            return [("r", n)]
        out = []
        if op == "word":
            if pc & 1:
                if not self.st.padding:
                    raise Unsettled("WORD at an odd address with PADDING OFF")
                out.append(("pad",))
        for arg in stmt["args"]:
            k = arg[0]
            if k == "f":
                raise Invalid("type", "float")
            if k not in ("i", "s", "c", "y"):
                raise Unsettled("argument kind")
            if op == "byte":
                v = self._int_or_char(arg, 1)
                if v is not None:
                    out.append(("b", int_field(v, 1, False)))
                else:
                    out.append(("b", bytes(self._chars(arg))))
            else:
                if k not in ("i", "y"):
                    raise Unsettled("WORD takes integers")
                out.append(("b", int_field(self._int_or_char(arg, 0), 2, False)))
        return out

    # ---------------------------------------------------------------- PIC DATA / RES / ZERO

    def _pic(self, stmt, pc):
        op = stmt["op"].lower()
        if op in ("res", "zero"):
            n = stmt["args"][0][1]
            if n < 1 or n > 0x1000:
                raise Unsettled("count")
            return [("rw", n)] if op == "res" else [("w", [0] * n)]
        words = []
        for arg in stmt["args"]:
            k = arg[0]
            if k == "f":
                raise Invalid("type", "float")
            if k == "c" and len(arg[1]) == 2:
                raise Unsettled("two characters against a 14 bit word")
            v = self._int_or_char(arg, 1)
            if v is not None:
                words.append(int_bits(v, 14))
            else:
                words += self._chars(arg)          # one character per word
        return [("w", words)]

    # ---------------------------------------------------------------- AVR DATA / RES

    def _avr(self, stmt, pc):
        op = stmt["op"].lower()
        if op == "res":
            n = stmt["args"][0][1]
            if n < 1 or n > 0x7fff:
                raise Unsettled("count")
            return [("rw", n)]
        if op != "data":
            return self._intel(stmt, pc)
        words = []
        half = []                              # pending low byte

        def put_byte(b):
            if half:
                words.append(half.pop() | (b << 8))
            else:
                half.append(b)

        def flush():
            if half:
                words.append(half.pop())

        for arg in stmt["args"]:
            k = arg[0]
            if k == "f":
                raise Invalid("type", "float")
            if k == "c" and len(arg[1]) == 2 and self.st.packing:
                raise Unsettled("two character constant with PACKING ON")
            v = self._int_or_char(arg, 1 if self.st.packing else 2)
            if v is None:
                for c in self._chars(arg):     # strings are always packed, LSB first
                    put_byte(c)
            elif self.st.packing:
                put_byte(int_bits(v, 8))
            else:
                flush()
                words.append(int_bits(v, 16))
        flush()
        return [("w", words)]

    # ---------------------------------------------------------------- TMS320C25 WORD/LONG/FLOAT/DOUBLE/STRING/RSTRING/DATA/BSS/RES

    def _ti(self, stmt, pc):
        op = stmt["op"].lower()
        if op in ("bss", "res"):
            n = stmt["args"][0][1]
            if n < 1 or n > 0x7fff:
                raise Unsettled("count")
            return [("rw", n)]
        words = []
        if op in ("string", "rstring"):
            bs = []
            for arg in stmt["args"]:
                if arg[0] == "f":
                    raise Invalid("type", "float")
                v = self._int_or_char(arg, 1)
                if v is not None:
                    bs.append(int_bits(v, 8))
                else:
                    bs += self._chars(arg)
            for i in range(0, len(bs), 2):
                a, b = bs[i], (bs[i + 1] if i + 1 < len(bs) else 0)
                words.append((a << 8) | b if op == "string" else (b << 8) | a)
            return [("w", words)]
        for arg in stmt["args"]:
            k = arg[0]
            if op in ("float", "double"):
                if k == "f":
                    x = float(arg[1])
                elif k == "i" and abs(arg[1]) < (1 << 53):
                    x = float(arg[1])
                else:
                    raise Unsettled("argument of FLOAT/DOUBLE")
                fmt = SINGLE if op == "float" else DOUBLE
                if float_status(x, fmt) == "over":
                    raise Invalid("range", "float too large")
                if float_status(x, fmt) == "band":
                    raise Unsettled("float band")
                bits = ieee_bits(x, fmt)
                for i in range(2 if op == "float" else 4):      # least significant word first
                    words.append((bits >> (16 * i)) & 0xffff)
                continue
            if k == "f":
                raise Invalid("type", "float")
            if op == "data":
                if k == "c" and len(arg[1]) == 2:
                    pass                                   # two characters fill the 16 bit word: 'AB' == $4142
                v = self._int_or_char(arg, 2)
                if v is not None:
                    words.append(int_bits(v, 16))
                else:
                    cs = self._chars(arg)                  # two characters per word, LSB first
                    for i in range(0, len(cs), 2):
                        words.append(cs[i] | ((cs[i + 1] if i + 1 < len(cs) else 0) << 8))
                continue
            if k not in ("i", "y"):
                raise Unsettled("WORD/LONG take integers")
            v = self._int_or_char(arg, 0)
            if op == "word":
                words.append(int_bits(v, 16))
            elif op == "long":
                b = int_bits(v, 32)
                words += [b & 0xffff, b >> 16]             # LoWord-HiWord
            else:
                raise ValueError(op)
        return [("w", words)]

    # ---------------------------------------------------------------- dispatch

    def layout(self, stmt, pc):
        op = stmt["op"].lower()
        fam = self.fam
        if op in ("dc", "ds") and fam in ("moto16", "moto8+16"):
            return self._moto_dc(stmt, pc) if op == "dc" else self._moto_ds(stmt, pc)
        if fam in ("moto8", "moto8+16") and op in ("byt", "fcb", "byte", "adr", "fdb", "fcc", "dfs", "rmb"):
            return self._moto8(stmt, pc)
        if fam == "intel" and (op in INTEL_BITS or op in ("ds", "dsb", "dsw", "fb", "fw")):
            if self.st.tgt != "cop8" and op in ("byte", "word", "addr", "addrw", "dsb", "dsw", "fb", "fw"):
                raise ValueError("COP8 only: " + op)
            return self._intel(stmt, pc)
        if fam == "ti":
            return self._ti(stmt, pc)
        if fam == "msp" and op in ("byte", "word", "bss"):
            return self._msp(stmt, pc)
        if fam == "pic" and op in ("data", "res", "zero"):
            return self._pic(stmt, pc)
        if fam == "avr" and (op in ("data", "res") or op in INTEL_BITS):
            return self._avr(stmt, pc)
        raise ValueError("statement %r not modelled for %s" % (op, self.st.tgt))

    def place(self, elems, pc, mem, anyval, masks=None):
        """apply layout elements at pc (target units); fills mem {byte address: value} and the set of byte
        addresses whose value is not settled (padding bytes of targets that do not document it); returns new pc"""
        gran = self.t["gran"]
        if masks is None:
            masks = {}
        reserve_only = all(e[0] in ("r", "rw", "pad") for e in elems) and any(e[0] in ("r", "rw") for e in elems)
        for e in elems:
            k = e[0]
            if k == "pad":
                if not reserve_only:
                    mem[pc] = 0
                    if self.fam != "msp":
                        anyval.add(pc)
                pc += 1
            elif k == "b":
                for i, b in enumerate(e[1]):
                    mem[pc + i] = b
                    if len(e) > 2 and e[2] is not None and e[2][i] != 0xff:
                        masks[pc + i] = e[2][i]
                pc += len(e[1])
            elif k == "r":
                pc += e[1]
            elif k == "w":
                for i, w in enumerate(e[1]):
                    mem[2 * (pc + i)] = w & 0xff
                    mem[2 * (pc + i) + 1] = (w >> 8) & 0xff
                    if len(e) > 2 and e[2] is not None and e[2][i] != 0xffff:
                        masks[2 * (pc + i)] = e[2][i] & 0xff
                        masks[2 * (pc + i) + 1] = (e[2][i] >> 8) & 0xff
                pc += len(e[1])
            elif k == "rw":
                pc += e[1]
            else:
                raise ValueError(e)
        assert gran in (1, 2)
        return pc


def layout_len(elems):
    n = 0
    for e in elems:
        n += 1 if e[0] == "pad" else (len(e[1]) if e[0] in ("b", "w") else e[1])
    return n
