"""C15 helper: assembler-accepted form tables for the three DASL targets and the program model.

A *form* is one statement shape the assembler accepts for the CPU: a template with operand slots, and
the control-flow kind the instruction has on the real processor:

   n  falls through            b  conditional branch to a label (target + fall through)
   c  call of a label          j  unconditional jump to a label (no fall through)
   t  terminal (return, indirect jump: no statically known successor)

Slot kinds (the case stores one int per slot):
   n4 0..15      n8 -128..255 (8-bit immediate)      u8 0..255      bit 0..7
   a8 1..255 (TLCS-870 direct address in parentheses; asl rejects the spelling (0))
   n16 0..65535, or >= LABREF: address of statement (v-LABREF) mod #statements
   x16 like n16 but plain numbers are >= 256 (6800 extended address that cannot be direct)
   xs  0..255 written with the '>' prefix (6800: forces extended addressing)
   mem:<modes> TLCS-870 memory operand, v = variant<<16 | mode<<8 | displacement byte
   ch:<list> index into a named choice list          T  branch target selector
Sources: 4004 = MCS-4 instruction set as accepted by code4004.c / tests/t_4004; 6800 = the 72 instructions of
the M6800 programming manual x addressing modes as accepted by code68.c; 87C00 = the statements of
tests/t_87c800 with their operand positions opened up along the cases of code87c800.c.
"""

LABREF = 0x10000


class Form:
    __slots__ = ("name", "tmpl", "slots", "flow", "rng")

    def __init__(self, name, tmpl, slots=(), flow="n", rng=None):
        self.name, self.tmpl, self.slots, self.flow, self.rng = name, tmpl, tuple(slots), flow, rng


CHOICES = {
    # 4004
    "r4": ["r0", "r1", "r2", "r3", "r4", "r5", "r6", "r7", "r8", "r9", "r10", "r11", "r12", "r13", "r14", "r15",
           "ra", "rb", "rc", "rd", "re", "rf"],
    "rp": ["r0p", "r1p", "r2p", "r3p", "r4p", "r5p", "r6p", "r7p", "r0r1", "r2r3", "r4r5", "r6r7", "r8r9",
           "rarb", "rcrd", "rerf", "r10r11", "r12r13", "r14r15"],
    "jcn": ["z", "nz", "c", "nc", "t", "nt", "tz", "cz", "tc", "tcz", "ntz", "ncz", "ntc", "ntcz", "zc", "czt",
            "0", "1", "2", "3", "4", "5", "6", "7", "8", "9", "10", "11", "12", "13", "14", "15"],
    # 6800
    "ab": ["a", "b"],
    # 87C00
    "r8": ["a", "w", "c", "b", "e", "d", "l", "h"],
    "r8na": ["w", "c", "b", "e", "d", "l", "h"],
    "r16": ["wa", "bc", "de", "hl"],
    "ptr": ["de", "hl"],
    "alu": ["addc", "add", "subb", "sub", "and", "xor", "or", "cmp"],
    "cc": ["z", "nz", "cs", "cc", "le", "gt", "t", "f", "eq", "ne", "lt", "ge"],
    "tf": ["t", "f"],
    "mulp": ["w,a", "b,c", "d,e", "h,l", "a,w", "c,b", "e,d", "l,h"],
    "divp": ["wa", "de", "hl"],
    "shift": ["daa", "das", "shlc", "shrc", "rolc", "rorc", "swap"],
    "incdec": ["inc", "dec"],
    "rot": ["rold", "rord"],
    "bitop": ["set", "clr", "cpl", "test"],
    "pp": ["push", "pop"],
}

# ---------------------------------------------------------------------------------------------- 4004

def _forms_4004():
    F = []
    for m in ("nop wrm wmp wrr wpm wr0 wr1 wr2 wr3 sbm rdm rdr adm rd0 rd1 rd2 rd3 clb clc iac cmc cma ral rar "
              "tcc dac tcs stc daa kbp dcl").split():
        F.append(Form(m, m))
    F.append(Form("inc", "inc {0}", ["ch:r4"]))
    for m in ("add", "sub", "ld", "xch"):
        F.append(Form(m, m + " {0}", ["ch:r4"]))
        F.append(Form(m + "_a", m + " a,{0}", ["ch:r4"]))
    F.append(Form("src", "src {0}", ["ch:rp"]))
    F.append(Form("fin", "fin {0}", ["ch:rp"]))
    F.append(Form("jin", "jin {0}", ["ch:rp"], "t"))
    F.append(Form("fim", "fim {0},{1}", ["ch:rp", "n8"]))
    F.append(Form("bbl", "bbl {0}", ["n4"], "t"))
    F.append(Form("ldm", "ldm {0}", ["n4"]))
    F.append(Form("jcn", "jcn {0},{1}", ["ch:jcn", "T"], "b", "page2"))
    F.append(Form("jun", "jun {0}", ["T"], "j", "abs"))
    F.append(Form("jms", "jms {0}", ["T"], "c", "abs"))
    F.append(Form("isz", "isz {0},{1}", ["ch:r4", "T"], "b", "page12"))
    return F


LEN_4004 = {"fim": 2, "jcn": 2, "jun": 2, "jms": 2, "isz": 2}      # everything else: 1 byte

# ---------------------------------------------------------------------------------------------- 6800

def _forms_6800():
    F = []
    for m in "aba cba clc cli clv daa des dex ins inx nop sba sec sei sev tab tap tba tpa tsx txs swi wai".split():
        F.append(Form(m, m))
    F.append(Form("rts", "rts", (), "t"))
    F.append(Form("rti", "rti", (), "t"))
    for m in "bcc bcs beq bge bgt bhi ble bls blt bmi bne bpl bvc bvs".split():
        F.append(Form(m, m + " {0}", ["T"], "b", "rel8"))
    F.append(Form("bra", "bra {0}", ["T"], "j", "rel8"))
    F.append(Form("bsr", "bsr {0}", ["T"], "c", "rel8"))
    modes = [("imm", "#{1}", "n8"), ("dir", "{1}", "u8"), ("idx", "{1},x", "u8"), ("ext", "{1}", "x16"),
             ("exs", "{1}", "xs")]
    for m in "adc add and bit cmp eor lda ora sbc sub sta".split():
        for mn, mt, sk in modes:
            if m == "sta" and mn == "imm":
                continue
            F.append(Form("%s_%s" % (m, mn), m + "{0} " + mt, ["ch:ab", sk]))          # ldaa #..
            F.append(Form("%s2_%s" % (m, mn), m + " {0}," + mt, ["ch:ab", sk]))        # lda a,#..
    for m in "asl asr clr com dec inc lsr neg rol ror tst".split():
        F.append(Form(m + "_acc", m + "{0}", ["ch:ab"]))
        F.append(Form(m + "2_acc", m + " {0}", ["ch:ab"]))
        F.append(Form(m + "_idx", m + " {0},x", ["u8"]))
        F.append(Form(m + "_ext", m + " {0}", ["x16"]))
        F.append(Form(m + "_exl", m + " {0}", ["u8"]))      # no direct form exists: extended with high byte 0
    modes16 = [("imm", "#{0}", "n16"), ("dir", "{0}", "u8"), ("idx", "{0},x", "u8"), ("ext", "{0}", "x16"),
               ("exs", "{0}", "xs")]
    for m in "cpx lds ldx sts stx".split():
        for mn, mt, sk in modes16:
            if m in ("sts", "stx") and mn == "imm":
                continue
            F.append(Form("%s_%s" % (m, mn), m + " " + mt, [sk]))
    F.append(Form("psh", "psh{0}", ["ch:ab"]))
    F.append(Form("psh2", "psh {0}", ["ch:ab"]))
    F.append(Form("pul", "pul{0}", ["ch:ab"]))
    F.append(Form("pul2", "pul {0}", ["ch:ab"]))
    F.append(Form("jmp_idx", "jmp {0},x", ["u8"], "t"))
    F.append(Form("jmp_ext", "jmp {0}", ["T"], "j", "abs"))
    F.append(Form("jsr_idx", "jsr {0},x", ["u8"]))
    F.append(Form("jsr_ext", "jsr {0}", ["T"], "c", "abs"))
    return F


# ---------------------------------------------------------------------------------------------- 87C00
# memory operand modes: D (de) H (hl) P (hl+) M (-hl) X (hl+d) C (hl+c) A (pc+a)
ALLMEM = "DHPMXCA"


def _forms_87c00():
    F = []
    A = F.append
    for m in "di ei swi nop".split():
        A(Form(m, m))
    for m in "ret reti retn".split():
        A(Form(m, m, (), "t"))
    A(Form("jrs", "jrs {0},{1}", ["ch:tf", "T"], "b", "rel5"))
    A(Form("jr_cc", "jr {0},{1}", ["ch:cc", "T"], "b", "rel8"))
    A(Form("jr", "jr {0}", ["T"], "j", "rel8"))
    A(Form("shift", "{0} {1}", ["ch:shift", "ch:r8"]))
    # ALU
    A(Form("alu_a_r", "{0} a,{1}", ["ch:alu", "ch:r8"]))
    A(Form("alu_r_a", "{0} {1},a", ["ch:alu", "ch:r8na"]))
    A(Form("alu_wa_rr", "{0} wa,{1}", ["ch:alu", "ch:r16"]))
    A(Form("alu_a_abs", "{0} a,({1})", ["ch:alu", "a8"]))
    A(Form("alu_a_mem", "{0} a,{1}", ["ch:alu", "mem:" + ALLMEM]))
    A(Form("alu_abs_hl", "{0} ({1}),(hl)", ["ch:alu", "a8"]))
    A(Form("alu_mem_hl", "{0} {1},(hl)", ["ch:alu", "mem:" + ALLMEM]))
    A(Form("alu_a_i", "{0} a,{1}", ["ch:alu", "n8"]))
    A(Form("alu_r_i", "{0} {1},{2}", ["ch:alu", "ch:r8na", "n8"]))
    A(Form("alu_rr_i", "{0} {1},{2}", ["ch:alu", "ch:r16", "n16"]))
    A(Form("alu_abs_i", "{0} ({1}),{2}", ["ch:alu", "a8", "n8"]))
    A(Form("alu_mem_i", "{0} {1},{2}", ["ch:alu", "mem:" + ALLMEM, "n8"]))
    A(Form("mcmp_abs", "mcmp ({0}),{1}", ["a8", "n8"]))
    A(Form("mcmp_mem", "mcmp {0},{1}", ["mem:" + ALLMEM, "n8"]))
    A(Form("incdec_r", "{0} {1}", ["ch:incdec", "ch:r8"]))
    A(Form("incdec_rr", "{0} {1}", ["ch:incdec", "ch:r16"]))
    A(Form("incdec_abs", "{0} ({1})", ["ch:incdec", "a8"]))
    A(Form("incdec_mem", "{0} {1}", ["ch:incdec", "mem:" + ALLMEM]))
    A(Form("mul", "mul {0}", ["ch:mulp"]))
    A(Form("div", "div {0},c", ["ch:divp"]))
    A(Form("rot_abs", "{0} a,({1})", ["ch:rot", "a8"]))
    A(Form("rot_mem", "{0} a,{1}", ["ch:rot", "mem:" + ALLMEM]))
    A(Form("xch_r_r", "xch {0},{1}", ["ch:r8", "ch:r8"]))
    A(Form("xch_rr_rr", "xch {0},{1}", ["ch:r16", "ch:r16"]))
    A(Form("xch_r_abs", "xch {0},({1})", ["ch:r8", "a8"]))
    A(Form("xch_abs_r", "xch ({0}),{1}", ["a8", "ch:r8"]))
    A(Form("xch_r_mem", "xch {0},{1}", ["ch:r8", "mem:" + ALLMEM]))
    A(Form("xch_mem_r", "xch {0},{1}", ["mem:" + ALLMEM, "ch:r8"]))
    A(Form("clr_r", "clr {0}", ["ch:r8"]))
    A(Form("clr_rr", "clr {0}", ["ch:r16"]))
    A(Form("clr_abs", "clr ({0})", ["a8"]))
    A(Form("clr_mem", "clr {0}", ["mem:DHPMX"]))
    A(Form("ldw_rr", "ldw {0},{1}", ["ch:r16", "n16"]))
    A(Form("ldw_abs", "ldw ({0}),{1}", ["a8", "n16"]))
    A(Form("ldw_hl", "ldw (hl),{0}", ["n16"]))
    # LD
    A(Form("ld_r_r", "ld {0},{1}", ["ch:r8", "ch:r8"]))
    A(Form("ld_r_abs", "ld {0},({1})", ["ch:r8", "a8"]))
    A(Form("ld_r_mem", "ld {0},{1}", ["ch:r8", "mem:" + ALLMEM]))
    A(Form("ld_r_i", "ld {0},{1}", ["ch:r8", "n8"]))
    A(Form("ld_rr_rr", "ld {0},{1}", ["ch:r16", "ch:r16"]))
    A(Form("ld_rr_abs", "ld {0},({1})", ["ch:r16", "a8"]))
    A(Form("ld_rr_mem", "ld {0},{1}", ["ch:r16", "mem:DHXCA"]))
    A(Form("ld_rr_i", "ld {0},{1}", ["ch:r16", "n16"]))
    A(Form("ld_abs_r", "ld ({0}),{1}", ["a8", "ch:r8"]))
    A(Form("ld_abs_rr", "ld ({0}),{1}", ["a8", "ch:r16"]))
    A(Form("ld_abs_abs", "ld ({0}),({1})", ["a8", "a8"]))
    A(Form("ld_abs_mem", "ld ({0}),{1}", ["a8", "mem:DHXCA"]))
    A(Form("ld_abs_i", "ld ({0}),{1}", ["a8", "n8"]))
    A(Form("ld_mem_r", "ld {0},{1}", ["mem:DHPMX", "ch:r8"]))
    A(Form("ld_mem_rr", "ld {0},{1}", ["mem:DHX", "ch:r16"]))
    A(Form("ld_hl_abs", "ld (hl),({0})", ["a8"]))
    A(Form("ld_hl_mem", "ld (hl),{0}", ["mem:DHXCA"]))
    A(Form("ld_mem_i", "ld {0},{1}", ["mem:DHPMX", "n8"]))
    A(Form("ld_sp_i", "ld sp,{0}", ["n16"]))
    A(Form("ld_sp_rr", "ld sp,{0}", ["ch:r16"]))
    A(Form("ld_rr_sp", "ld {0},sp", ["ch:r16"]))
    A(Form("ld_rbs", "ld rbs,{0}", ["n4"]))
    # jumps and calls
    A(Form("jp", "jp {0}", ["T"], "j", "abs"))
    A(Form("call", "call {0}", ["T"], "c", "abs"))
    A(Form("jp_rr", "jp {0}", ["ch:r16"], "t"))
    A(Form("call_rr", "call {0}", ["ch:r16"]))
    A(Form("jp_abs", "jp ({0})", ["a8"], "t"))
    A(Form("call_abs", "call ({0})", ["a8"]))
    A(Form("jp_mem", "jp {0}", ["mem:DHXCA"], "t"))
    A(Form("call_mem", "call {0}", ["mem:DHXCA"]))
    A(Form("callv", "callv {0}", ["n4"]))
    A(Form("callp", "callp {0}", ["T"], "c", "ffpage"))
    A(Form("pp_psw", "{0} psw", ["ch:pp"]))
    A(Form("pp_rr", "{0} {1}", ["ch:pp", "ch:r16"]))
    # carry flag / bit operations
    A(Form("ld_cf_r", "ld cf,{0}.{1}", ["ch:r8", "bit"]))
    A(Form("ld_cf_abs", "ld cf,({0}).{1}", ["a8", "bit"]))
    A(Form("ld_cf_mem", "ld cf,{0}.{1}", ["mem:" + ALLMEM, "bit"]))
    A(Form("ld_cf_ptr", "ld cf,({0}).{1}", ["ch:ptr", "ch:r8"]))
    A(Form("ld_r_cf", "ld {0}.{1},cf", ["ch:r8", "bit"]))
    A(Form("ld_abs_cf", "ld ({0}).{1},cf", ["a8", "bit"]))
    A(Form("ld_mem_cf", "ld {0}.{1},cf", ["mem:" + ALLMEM, "bit"]))
    A(Form("ld_ptr_cf", "ld ({0}).{1},cf", ["ch:ptr", "ch:r8"]))
    A(Form("xor_cf_r", "xor cf,{0}.{1}", ["ch:r8", "bit"]))
    A(Form("xor_cf_abs", "xor cf,({0}).{1}", ["a8", "bit"]))
    A(Form("xor_cf_mem", "xor cf,{0}.{1}", ["mem:" + ALLMEM, "bit"]))
    A(Form("cf_op", "{0} cf", ["ch:bitop3"]))
    A(Form("bit_r", "{0} {1}.{2}", ["ch:bitop", "ch:r8", "bit"]))
    A(Form("bit_abs", "{0} ({1}).{2}", ["ch:bitop", "a8", "bit"]))
    A(Form("bit_mem", "{0} {1}.{2}", ["ch:bitop", "mem:" + ALLMEM, "bit"]))
    A(Form("bit_ptr", "{0} ({1}).{2}", ["ch:bitop", "ch:ptr", "ch:r8"]))
    return F


CHOICES["bitop3"] = ["set", "clr", "cpl"]

FORMS = {"4004": _forms_4004(), "6800": _forms_6800(), "87C00": _forms_87c00()}
BYNAME = {cpu: {f.name: f for f in fs} for cpu, fs in FORMS.items()}
for _cpu, _fs in FORMS.items():
    assert len(BYNAME[_cpu]) == len(_fs), "duplicate form name in " + _cpu

# the assembler's CPU name for what dasl calls the CPU (asl has no 6802: same instruction set as 6800)
ASL_CPU = {"6800": "6800", "6802": "6800", "87C00": "87C00", "4004": "4004"}
TABLE = {"6800": "6800", "6802": "6800", "87C00": "87C00", "4004": "4004"}
MOTO = {"6800": True, "6802": True, "87C00": False, "4004": False}
ADDR_SPACE = {"6800": 0x10000, "6802": 0x10000, "87C00": 0x10000, "4004": 0x1000}


# ---------------------------------------------------------------------------------------------- values

B8 = [0, 1, 9, 10, 0x0f, 0x10, 0x7f, 0x80, 0x99, 0x9a, 0xa0, 0xff]
B16 = [0, 1, 0xff, 0x100, 0x0a00, 0x1234, 0x7fff, 0x8000, 0x9fff, 0xa000, 0xabcd, 0xffff]


def draw_slot(d, kind, salt=0):
    """one int per slot; every choice through d.  Hypothesis tends to repeat drawn values within and across
    examples; `salt` (the statement's position) rotates choice lists so that repeated draws still give
    different registers / boundary values"""
    def pick(seq):
        return seq[(d.int(0, len(seq) - 1) + salt) % len(seq)]
    if kind == "n4":
        return (d.int(0, 15) + salt) % 16
    if kind == "bit":
        return (d.int(0, 7) + salt) % 8
    if kind == "a8":
        return pick(B8[1:]) if d.bool() else d.int(1, 255)
    if kind == "u8" or kind == "xs":
        return pick(B8) if d.bool() else d.int(0, 255)
    if kind == "n8":
        w = d.int(0, 9)
        if w == 0:
            return d.int(-128, -1)
        return pick(B8) if w < 5 else d.int(0, 255)
    if kind == "n16":
        w = d.int(0, 9)
        if w < 2:
            return LABREF + d.int(0, 255)
        return pick(B16) if w < 5 else d.int(0, 0xffff)
    if kind == "x16":
        w = d.int(0, 9)
        if w < 2:
            return LABREF + d.int(0, 255)
        return pick([x for x in B16 if x >= 0x100]) if w < 5 else d.int(0x100, 0xffff)
    if kind.startswith("mem:"):
        return (d.int(0, 1) << 16) | (((d.int(0, 15) + salt) % 16) << 8) | (pick(B8) if d.bool() else d.int(0, 255))
    if kind.startswith("ch:"):
        n = len(CHOICES[kind[3:]])
        return (d.int(0, n - 1) + salt) % n
    if kind == "T":
        return d.int(0, 255)
    raise ValueError(kind)


def num(cpu, v, salt=0):
    """literal in the CPU's default integer syntax (Motorola $xx / Intel xxh) or decimal"""
    if v < 0:
        return str(v)
    style = (v * 7 + salt * 3) % 5
    if style == 0:
        return str(v)
    if MOTO[cpu]:
        return ("$%x", "$%X", "$%02x", "$%04X")[style - 1] % v
    s = ("%x", "%X", "%02x", "%04X")[style - 1] % v
    if not s[0].isdigit():
        s = "0" + s
    return s + ("h" if style % 2 else "H")


def mem_operand(kind, v):
    modes = kind[4:]
    m = modes[((v >> 8) & 0xff) % len(modes)]
    alt = (v >> 16) & 1
    if m == "D":
        return "(de)"
    if m == "H":
        return "(hl)"
    if m == "P":
        return "(hl+)"
    if m == "M":
        return "(-hl)"
    if m == "C":
        return "(c+hl)" if alt else "(hl+c)"
    if m == "A":
        return "(a+pc)" if alt else "(pc+a)"
    dsp = v & 0xff
    if dsp >= 0x80:
        dsp -= 0x100
    if dsp == 0:
        dsp = 1
    return "(hl%+d)" % dsp


def render(cpu, form, vals, k, nstmts, target=None):
    """statement text (without label); target = label name or placeholder for the T slot"""
    out = []
    for i, kind in enumerate(form.slots):
        v = vals[i]
        if kind == "T":
            out.append(target)
        elif kind == "bit":
            out.append(str(v))          # a single digit 0-7 is required after the dot
        elif kind in ("n4", "n8", "u8", "a8"):
            out.append(num(cpu, v, k + i))
        elif kind == "xs":
            out.append(">" + num(cpu, v, k + i))
        elif kind in ("n16", "x16"):
            out.append("S%d" % ((v - LABREF) % nstmts) if v >= LABREF else num(cpu, v, k + i))
        elif kind.startswith("mem:"):
            out.append(mem_operand(kind, v))
        elif kind.startswith("ch:"):
            out.append(CHOICES[kind[3:]][v % len(CHOICES[kind[3:]])])
        else:
            raise ValueError(kind)
    return form.tmpl.format(*out)


def placeholder(cpu, form):
    """target expression that is always in range, used only to learn statement addresses"""
    if form.rng == "ffpage":
        return "0ff00h"
    if MOTO[cpu]:
        return "*"
    return "$"
