"""C13 reference resolver: symbol scoping, mutability and naming rules of AS, written from the manual.

Sources (doc/pseudo-instructions.md, doc/assembler-usage.md), quoted where a rule is taken from:

  [LS1] "If a symbol of a certain name has been defined inside and outside of a section, the 'local' one will
        be preferred inside the section"
  [LS2] "When looking up a symbol, AS first searches for a symbol assigned to the current section, and
        afterwards traverses the list of parent sections until the global symbols are reached."
  [LS3] "This rule can be overridden by explicitly appending a section's name ... in brackets.  Only sections
        that are in the parent section path of the current section may be used.  PARENT0...PARENT9 ... the n-th
        'parent' of the current section; PARENT0 is ... the current section itself, PARENT1 the direct parent
        ... PARENT1 may be abbreviated as PARENT.  If no name is given between the brackets ... one reaches the
        global symbol.  CAUTION! ... AS will only seek for symbols from this section, i.e. the traversal of the
        parent sections path is omitted!"
  [PUB] "PUBLIC <name>[:<section>] ... The symbol will be assigned to the referenced section ... this statement
        has to appear before the symbol itself is defined.  AS stores all PUBLICs in a list and removes an
        entry from this list when the corresponding symbol is defined.  AS prints errors at the end of a
        section in case that not all PUBLICs have been resolved."
  [GLB] "GLOBAL ... the symbol stays local ... an additional symbol of the same value but with the subsection's
        name appended to the symbol's name is created [A_SYM] ... In case that source and target section are
        separated by more than one level, the complete name path is prepended"
  [FWD] "FORWARD ... explicitly announced to be local ... It does not make sense to define a symbol private and
        public; this will be regarded as an error by AS."
  [MUT] "EQU defines constants which can not be modified (by EQU) again, but SET permits the definition of
        variables ... Trying to change a constant with SET will result in an error message."
  [MAC] "Labels defined in macros always are regarded as being local, unless the GLOBALSYMBOLS was used ...
        LABEL statement which always creates global symbols"; "the locality of labels inside macros is not
        influenced by sections"; the DefVec example (EQU/SET in a macro body define ordinary symbols).
  [T1]  named: "AS keeps an internal counter ... incremented upon every definition of a non-temporary symbol.
        When a temporary symbol is defined or referenced, both leading dollar signs are discarded and the
        counter's current value is appended."
  [T2]  nameless: "- -- --- respectively + ++ +++ , which refer to the three last 'minus symbols' and the next
        three 'plus symbols'";  "/ ... is treated either as a plus or a minus"
  [T3]  composed: "the name of the most recently-defined symbol not beginning with a dot is prepended ...
        the most recent non-temporary symbol is not stored per-section, but simply globally"
  [CS]  "AS is by default not case-sensitive ... The command line switch U ... upper and lower case makes a
        difference"; section names likewise.
  [PV]  PUSHV/POPV: LIFO stacks, global names, lists processed left to right, blank name = default stack.

The model interprets the *program as the final pass sees it*: every definition of the whole program is in the
table (forward references are legal, manual "Forward References"), variables (SET) have the value of the
latest assignment in program order.

A program ("case") is JSON:  dict(cpu=..., macros=[dict(name, glob, body=[item..])], prog=[item..],
D=[[name, value]..] symbols defined with -D on the command line).
Items (dict, key "k"):
  def   n how(equ|=|equ2|set|:=|lab|lab:|label) [v] [of] [str] label kinds take the program counter; of=dict(n,q):
                                                           the value is the symbol `of` plus v; str: the symbol is
                                                           the string "v" (references then read it as val(name));
                                                           reg (68000, how reg|equ|set): register symbol, v = 0..15
                                                           for D0-D7, A0-A7; references: move.w name,d0
  rept  c body [glob] REPT c[,{GLOBALSYMBOLS}] ... ENDM (labels in the body are local to each repetition unless glob)
  irp   p a body     IRP p,a1,a2.. ... ENDM; references in the body whose name is p stand for the arguments
  proc  n items      the manual's macro pair: proc n = SECTION n / PUBLIC n:PARENT / n LABEL $ ; endp n = ENDSECTION n
                     (needs case["procs"] = true, which emits the two macro definitions)
  (ref, tref, nref, cref may carry ins=true: the reference is the operand of a machine instruction)
  ref   n q [x]      q: None | "" ([]) | "=Name" | "P" | "P0".."P9"     -> one data word; x=(style, n): the
                     reference stands in a small expression (sym+n, n+sym, sym-n, (sym)+n, sym + n); also tref, cref
  sect  n end items  SECTION n ... ENDSECTION [n]
  pub   n q g [more] PUBLIC / GLOBAL n[:q]      q: None | "=Name" | "P".."P9"; more = [[n, q], ..] further arguments
  fwd   n [more]     FORWARD n; more = [[n, None], ..]
  call  m            macro call
  tdef/tref n        $$n label / reference
  ndef c / nref c d  nameless temporary label (+ - /) / reference ('+' or '-' repeated d times)
  cdef/cref n        .n label / reference
  pushv/popv s a     a = list of dict(n, q)
"""

ORG = 0x100
# word: data statement of one 16-bit word; ins/insb: an instruction with one 16-bit operand and its opcode bytes
CPUS = {
    "z80": dict(cpu="Z80", word="dw", big=False, nop=b"\x00", pc="$", ins="ld\thl,%s", insb=b"\x21"),
    "68000": dict(cpu="68000", word="dc.w", big=True, nop=b"\x4e\x71", pc="*", ins="move.w\t#%s,d0", insb=b"\x30\x3c"),
    "6502": dict(cpu="6502", word="adr", big=False, nop=b"\xea", pc="*", ins="jmp\t%s", insb=b"\x4c"),
    "6809": dict(cpu="6809", word="fdb", big=True, nop=b"\x12", pc="*", ins="ldx\t#%s", insb=b"\x8e"),
}
LABEL_HOW = ("lab", "lab:", "label")
CONST_HOW = ("equ", "=", "equ2", "reg") + LABEL_HOW
VAR_HOW = ("set", ":=")


class Discard(Exception):
    """the case falls into a class the manual does not settle (see ASSUMPTIONS of the check)"""


class Ev:
    __slots__ = ("i", "kind", "item", "iid", "path", "exp", "line", "addr", "glob", "depth", "body")

    def __init__(self, **k):
        for a in self.__slots__:
            setattr(self, a, k.get(a))


class Entity:
    __slots__ = ("kind", "value", "ev", "sect", "name", "via", "label", "thunk", "str", "cmdline", "reg")

    def __init__(self, kind, value, ev, sect, name, via=None, label=False, thunk=None, str_=False):
        self.kind, self.value, self.ev, self.sect, self.name, self.via, self.label = kind, value, ev, sect, name, via, label
        self.thunk = thunk       # (event, item) of a constant defined by an expression `symbol+delta`
        self.str = str_          # the value is the string of its decimal digits (read through VAL())
        self.cmdline = False     # defined with -D on the command line
        self.reg = False         # register symbol (68000: value 0-7 = D0-D7, 8-15 = A0-A7)


def qual_text(q, lower=False):
    if q is None:
        return ""
    if q == "":
        return "[]"
    if q[0] == "=":
        return "[%s]" % q[1:]
    return "[%s]" % (q_parent_text(q).lower() if lower else q_parent_text(q))


def reg_name(r):
    return "d%d" % r if r < 8 else "a%d" % (r - 8)


def wrap_expr(sym, it):
    """a reference may stand inside a small expression: x = (style, n); the word is then value+n resp. value-n"""
    x = it.get("x")
    if not x:
        return sym
    style, n = x
    return {"+": "%s+%d", "pre": "%d+%s", "-": "%s-%d", "()": "(%s)+%d", "sp": "%s + %d"}[style] % (
        (n, sym) if style == "pre" else (sym, n))


def expr_delta(it):
    x = it.get("x")
    if not x:
        return 0
    return -x[1] if x[0] == "-" else x[1]


def q_parent_text(q):
    return "PARENT" + q[1:]


class Prog:
    """layout of a case: item numbering, source lines, execution-ordered events with addresses"""

    def __init__(self, case):
        self.case = case
        self.cpu = CPUS[case["cpu"]]
        self.items = []           # iid -> item
        self.lines = []           # (role, iid, literal text) per source line; role: 'item' | 'fix'
        self.line_of = {}         # iid -> line number (1-based) of the item's (first) line
        self.macros = {}
        self.sections = {}        # sid -> (name, parent sid)
        self.events = []
        self.header_of_endm = {}  # line of the ENDM of a REPT/IRP -> line of the REPT/IRP statement
        self._build()

    # ---- numbering and lines
    def _new_item(self, it):
        self.items.append(it)
        return len(self.items) - 1

    def _line(self, role, iid=None, text=None):
        self.lines.append((role, iid, text))
        return len(self.lines)

    def _build(self):
        c = self.case
        self._line("fix", None, "\tcpu\t%s" % self.cpu["cpu"])
        self._line("fix", None, "\torg\t%d" % ORG)
        for m in c.get("macros", []):
            self._line("fix", None, "%s\tmacro%s" % (m["name"], "\t{GLOBALSYMBOLS}" if m.get("glob") else ""))
            ids = []
            for it in m["body"]:
                iid = self._new_item(it)
                ids.append(iid)
                self.line_of[iid] = self._line("item", iid)
            self._line("fix", None, "\tendm")
            self.macros[m["name"]] = (m, ids)
        if c.get("procs"):
            # the macro pair of the manual ("PUBLIC and GLOBAL"): the section's entry label is made known to the
            # parent section only
            for t in ("proc\tmacro\tname", "\tsection\tname", "\tpublic\tname:PARENT",
                      "name\tlabel\t%s" % self.cpu["pc"], "\tendm", "endp\tmacro\tname", "\tendsection\tname",
                      "\tendm"):
                self._line("fix", None, t)
        self._exp = 0
        self._sid = 0
        self._addr = ORG
        self._walk(c["prog"], ())
        self.top = self._addr

    def _size(self, it):
        k = it["k"]
        if k == "ref" and it.get("reg"):
            if it.get("ins") or it.get("x") or it.get("str"):
                raise Discard("register symbol inside an expression")
            return 2
        if k == "ref" or k == "tref" or k == "nref" or k == "cref":
            return 2 + (len(self.cpu["insb"]) if it.get("ins") else 0)
        if k == "def":
            return len(self.cpu["nop"]) if it["how"] in ("lab", "lab:") else 0
        if k in ("tdef", "ndef", "cdef"):
            return len(self.cpu["nop"])
        return 0

    def _event(self, kind, it, iid, path, exp, line, glob=False, body=None):
        e = Ev(i=len(self.events), kind=kind, item=it, iid=iid, path=path, exp=exp, line=line, addr=self._addr,
               glob=glob, depth=len(path), body=body)
        self.events.append(e)
        if it is not None and kind not in ("open", "close", "call", "rept"):
            self._addr += self._size(it)
        return e

    def _walk(self, items, path):
        for it in items:
            iid = self._new_item(it)
            k = it["k"]
            if k == "sect":
                line = self.line_of[iid] = self._line("fix", iid, "\tsection\t%s" % it["n"])
                self._sid += 1
                sid = self._sid
                self.sections[sid] = (it["n"], path[-1] if path else None)
                self._event("open", it, iid, path + (sid,), None, line)
                self._walk(it["items"], path + (sid,))
                line = self._line("fix", iid, "\tendsection" + ("\t%s" % it["end"] if it.get("end") else ""))
                self._event("close", it, iid, path + (sid,), None, line)
            elif k == "proc":
                if not self.case.get("procs"):
                    raise Discard("proc without the macro pair")
                line = self.line_of[iid] = self._line("fix", iid, "\tproc\t%s" % it["n"])
                self._sid += 1
                sid = self._sid
                self.sections[sid] = (it["n"], path[-1] if path else None)
                sub = path + (sid,)
                self._event("open", it, iid, sub, None, line)
                # the two statements of the macro body, as items of their own (never switched off)
                for syn in (dict(k="pub", n=it["n"], q="P", g=False), dict(k="def", n=it["n"], how="label")):
                    siid = self._new_item(syn)
                    self.line_of[siid] = line
                    self._event(syn["k"], syn, siid, sub, None, line, body="proc")
                self._walk(it["items"], sub)
                line = self._line("fix", iid, "\tendp\t%s" % it["n"])
                self._event("close", it, iid, sub, None, line)
            elif k == "call":
                line = self.line_of[iid] = self._line("item", iid)
                m, ids = self.macros[it["m"]]
                self._exp += 1
                ex = self._exp
                self._event("call", it, iid, path, None, line)
                for bit, biid in zip(m["body"], ids):
                    if bit["k"] in ("sect", "call", "rept"):
                        raise Discard("nested construct in macro body")
                    self._event(bit["k"], bit, biid, path, ex, line, glob=bool(m.get("glob")), body="macro")
            elif k == "rept":
                line = self.line_of[iid] = self._line("fix", iid, "\trept\t%d%s" % (it["c"], ",{GLOBALSYMBOLS}" if it.get("glob") else ""))
                ids = []
                for bit in it["body"]:
                    if bit["k"] in ("sect", "call", "rept"):
                        raise Discard("nested construct in REPT body")
                    biid = self._new_item(bit)
                    ids.append(biid)
                    self.line_of[biid] = self._line("item", biid)
                self.header_of_endm[self._line("fix", iid, "\tendm")] = line
                self._event("rept", it, iid, path, None, line)
                for _ in range(it["c"]):
                    self._exp += 1
                    for bit, biid in zip(it["body"], ids):
                        self._event(bit["k"], bit, biid, path, self._exp, self.line_of[biid], glob=bool(it.get("glob")),
                                    body="rept")
            elif k == "irp":
                # IRP p,a1,a2,...: the body is assembled once per argument, p replaced by the argument
                line = self.line_of[iid] = self._line("fix", iid, "\tirp\t%s,%s" % (it["p"], ",".join(it["a"])))
                ids = []
                for bit in it["body"]:
                    if bit["k"] in ("sect", "call", "rept", "irp", "proc"):
                        raise Discard("nested construct in IRP body")
                    biid = self._new_item(bit)
                    ids.append(biid)
                    self.line_of[biid] = self._line("item", biid)
                self.header_of_endm[self._line("fix", iid, "\tendm")] = line
                self._event("rept", it, iid, path, None, line)
                for arg in it["a"]:
                    self._exp += 1
                    for bit, biid in zip(it["body"], ids):
                        if bit["k"] == "ref" and bit["n"] == it["p"]:
                            bit = dict(bit, n=arg, param=it["p"])
                        self._event(bit["k"], bit, biid, path, self._exp, self.line_of[biid], body="rept")
            else:
                line = self.line_of[iid] = self._line("item", iid)
                self._event(k, it, iid, path, None, line)

    # ---- rendering
    def render(self, off=frozenset()):
        out = []
        for role, iid, text in self.lines:
            out.append(text if role == "fix" else self.text(self.items[iid], iid in off))
        return "\n".join(out) + "\n"

    def text(self, it, off):
        cpu = self.cpu
        k = it["k"]
        W = cpu["word"]
        if k == "def":
            how, n = it["how"], it["n"]
            if how == "lab":
                return ("%s\tnop" % n) if not off else "\tnop"
            if how == "lab:":
                return ("%s:\tnop" % n) if not off else "\tnop"
            if off:
                return "; off"
            if how == "label":
                return "%s\tlabel\t%s" % (n, cpu["pc"])
            if it.get("reg"):
                val = reg_name(it["v"])
            elif it.get("of"):
                val = "%s%s+%d" % (it["of"]["n"], qual_text(it["of"].get("q")), it["v"])
            elif it.get("str"):
                val = '"%d"' % it["v"]
            else:
                val = "%d" % it["v"]
            if how == "equ2":
                return "\tequ\t%s,%s" % (n, val)
            return "%s\t%s\t%s" % (n, how, val)
        if k == "ref" and it.get("reg"):
            # register symbol as source operand: the instruction word shows the register
            return "\tmove.w\t%s,d0" % ("d0" if off else it["n"] + qual_text(it.get("q"), it.get("pl")))
        if k in ("ref", "tref", "nref", "cref"):
            if off:
                arg = "0"
            elif k == "ref":
                sym = it["n"] + qual_text(it.get("q"), it.get("pl"))
                arg = wrap_expr("val(%s)" % sym if it.get("str") else sym, it)
            elif k == "tref":
                arg = wrap_expr("$$" + it["n"], it)
            elif k == "cref":
                arg = wrap_expr("." + it["n"], it)
            else:
                arg = it["c"] * it["d"]
            if it.get("ins"):
                return "\t" + cpu["ins"] % arg
            return "\t%s\t%s" % (W, arg)
        if k == "pub":
            if off:
                return "; off"
            args = [(it["n"], it.get("q"))] + [tuple(x) for x in it.get("more", [])]
            return "\t%s\t%s" % ("global" if it.get("g") else "public", ",".join(
                n + ("" if q is None else ":" + (q[1:] if q[0] == "=" else q_parent_text(q))) for n, q in args))
        if k == "fwd":
            return "\tforward\t%s" % ",".join([it["n"]] + [x[0] for x in it.get("more", [])]) if not off else "; off"
        if k == "call":
            return "\t%s" % it["m"]
        if k == "tdef":
            return ("$$%s:\tnop" % it["n"]) if not off else "\tnop"
        if k == "ndef":
            return ("%s\tnop" % it["c"]) if not off else "\tnop"
        if k == "cdef":
            return (".%s%s\tnop" % (it["n"], ":" if it.get("colon") else "")) if not off else "\tnop"
        if k in ("pushv", "popv"):
            if off:
                return "; off"
            return "\t%s\t%s,%s" % (k, it["s"], ",".join(a["n"] + qual_text(a.get("q")) for a in it["a"]))
        raise Discard("unknown item kind %r" % k)


class Slot:
    __slots__ = ("addr", "line", "iid", "exp", "value", "status", "tags", "text")
    # status: 'value' | 'undef' | 'qual' | 'skip'

    def __init__(self, ev, plen=0):
        self.addr, self.line, self.iid, self.exp = ev.addr + plen, ev.line, ev.iid, ev.exp
        self.value, self.status, self.tags, self.text = None, None, [], None


class Result:
    def __init__(self):
        self.slots = []
        self.faults = {"def": {}, "qual": {}, "undef": {}}   # class -> {iid: (line, why)}
        self.disable = set()                                 # items with side effects that must be taken out
        self.tags = set()

    def fault(self, cls, ev, why, line=None, key=None, also=()):
        """key: item to switch off to remove the fault (default: the event's item); a macro body item can be
        faulty in several expansions, i.e. on several (call) lines"""
        if ev.body == "proc":
            raise Discard("faulty statement inside the proc macro")
        rec = self.faults[cls].setdefault(ev.iid if key is None else key, ([], why, []))
        ln = ev.line if line is None else line
        if ln not in rec[0]:
            rec[0].append(ln)
        for x in also:
            if x not in rec[2]:
                rec[2].append(x)


def evaluate(prog, U, off=frozenset()):
    """interpret the program (items in `off` are inert).  Raises Discard for excluded classes."""
    def F(s):
        return s if U else s.upper()

    res = Result()
    sections = prog.sections
    table = {}       # (folded name, sid|None) -> Entity
    loc = {}         # (folded name, exp) -> Entity
    lists = {}       # sid -> dict(fwd={N:ev}, pub={N:(dest, ev)}, glob={N:(dest, ev)})
    state = dict(counter=0, last=None, amb_area=False, amb_dot=True)
    snap = {}        # event index -> (counter, last, amb_area, amb_dot)
    minus, plus = [], []   # [(event index, Entity)]
    fwd_at = {}

    def sect_name(sid):
        return sections[sid][0]

    def identify(path, q, ev):
        """section named by a qualifier, seen from `path`; returns ('ok', sid|None) or ('bad',)"""
        if q == "":
            return ("ok", None)
        if q[0] == "=":
            want = F(q[1:])
            for sid in reversed(path):           # current section first, then its parents [LS3]
                if F(sect_name(sid)) == want:
                    return ("ok", sid)
            return ("bad",)
        n = 1 if len(q) == 1 else int(q[1:])
        if n > len(path):
            return ("bad",)
        if n == len(path):
            return ("ok", None)
        return ("ok", path[len(path) - 1 - n])

    def nontemp_defined(name, ok):
        """bookkeeping for temporary symbols on a definition of the non-temporary symbol `name`"""
        if ok:
            state["counter"] += 1
            state["last"] = name
            state["amb_area"] = False
            state["amb_dot"] = False
        else:
            # a rejected definition: the manual does not say whether it separates temporary-symbol areas
            state["amb_area"] = True
            state["amb_dot"] = True

    def enter(key, kind, value, ev, name, via=None, label=False, also=(), thunk=None, str_=False, reg=False):
        """apply [MUT]; returns Entity or None (fault recorded)"""
        old = table.get(key)
        if old is None:
            e = Entity(kind, value, ev, key[1], name, via, label, thunk, str_)
            e.reg = reg
            table[key] = e
            return e
        if old.str != str_ or old.reg != reg:
            raise Discard("one name for symbols of different types")
        if old.cmdline:
            raise Discard("a -D symbol is defined again (the manual does not say whether it is a constant)")
        if kind == "const":
            res.fault("def", ev, "constant %s defined twice" % name if old.kind == "const"
                      else "variable %s redefined as constant" % name, also=also)
            return None
        if old.kind == "const":
            res.fault("def", ev, "constant %s changed with SET" % name, also=also)
            return None
        return old

    # -D name=value: "written to the global symbol table before starting the assembly"
    for name, value in prog.case.get("D", []):
        e = Entity("const", value, Ev(i=-1, line=0, path=()), None, name)
        e.cmdline = True
        table[(F(name), None)] = e

    # ------------------------------------------------------------ pass A: definitions
    for ev in prog.events:
        it, k = ev.item, ev.kind
        snap[ev.i] = (state["counter"], state["last"], state["amb_area"], state["amb_dot"])
        cur = ev.path[-1] if ev.path else None
        if k == "open":
            lists[cur] = dict(fwd={}, pub={}, glob={})
            continue
        if k == "close":
            L = lists.pop(cur)
            for N, (dest, pev) in L["pub"].items():
                # [PUB] errors at the end of a section for PUBLICs that were never resolved
                res.fault("def", pev, "PUBLIC %s never defined" % N, line=ev.line)
            if L["glob"] or L["fwd"]:
                raise Discard("GLOBAL/FORWARD symbol never defined in its section")
            continue
        if ev.iid in off:
            continue
        if ev.exp is not None and k in ("tdef", "tref", "ndef", "nref", "cdef", "cref", "pushv", "popv", "pub", "fwd"):
            raise Discard("temporary symbols / stack / export statements inside a macro body")
        if k == "def":
            name, how = it["n"], it["how"]
            N = F(name)
            kind = "var" if how in VAR_HOW else "const"
            value = ev.addr if how in LABEL_HOW else it["v"]
            thunk = None
            is_str = bool(it.get("str"))
            is_reg = bool(it.get("reg"))
            if (is_str or is_reg) and (how in LABEL_HOW or it.get("of") or ev.exp is not None):
                raise Discard("string/register symbol as label / expression / in a macro body")
            if is_reg and (prog.case["cpu"] != "68000" or is_str or not 0 <= it["v"] <= 15):
                raise Discard("register symbols are only modelled for the 68000")
            if it.get("of"):
                if how in LABEL_HOW:
                    raise Discard("label with an expression")
                value, thunk = None, (ev, it)
                # [FWD] while a FORWARD of the name is pending, pass 1 only looks in the current section
                fwd_at[ev.i] = (cur is not None and it["of"].get("q") is None and F(it["of"]["n"]) in lists[cur]["fwd"])
            if ev.exp is not None and how in ("lab", "lab:") and not ev.glob:
                # [MAC] label local to this expansion
                if (N, ev.exp) in loc:
                    res.fault("def", ev, "macro-local label %s defined twice" % name)
                    nontemp_defined(name, False)
                else:
                    loc[(N, ev.exp)] = Entity("const", value, ev, ("exp", ev.exp), name, None, True)
                    nontemp_defined(name, True)
                continue
            target, via, extra, also = cur, None, None, ()
            if cur is not None:
                L = lists[cur]
                if N in L["fwd"]:
                    also = (L["fwd"].pop(N).iid,)
                elif N in L["pub"]:
                    target, pev = L["pub"].pop(N)
                    via, also = "public", (pev.iid,)
                elif N in L["glob"]:
                    dest, pev = L["glob"].pop(N)
                    also = (pev.iid,)
                    # [GLB] name path from the destination (exclusive) down to the current section
                    names = []
                    for sid in reversed(ev.path):
                        if sid == dest:
                            break
                        names.append(sect_name(sid))
                    extra = ("_".join(reversed(names)) + "_" + name, dest)
            if extra is not None:
                if kind != "const":
                    raise Discard("GLOBAL of a variable")
                if (F(extra[0]), extra[1]) in table or (N, target) in table:
                    raise Discard("GLOBAL export collides")
            if via == "public" and kind != "const":
                raise Discard("PUBLIC of a variable")
            e = enter((N, target), kind, value, ev, name, via, how in LABEL_HOW, also,
                      thunk if kind == "const" else None, is_str, is_reg)
            if ev.exp is not None and res.faults["def"].get(ev.iid):
                raise Discard("rejected definition inside a macro body")
            nontemp_defined(name, e is not None)
            if e is not None and extra is not None:
                table[(F(extra[0]), extra[1])] = Entity("const", value, ev, extra[1], extra[0], "global",
                                                        how in LABEL_HOW, thunk, is_str)
                table[(F(extra[0]), extra[1])].reg = is_reg
            continue
        if k in ("pub", "fwd"):
            if cur is None:
                raise Discard("PUBLIC/GLOBAL/FORWARD outside of a section")
            L = lists[cur]
            # "It is possible to treat multiple symbols with one statement": more = further names (with sections)
            for name, q in [(it["n"], it.get("q"))] + [tuple(x) for x in it.get("more", [])]:
                N = F(name)
                if k == "fwd":
                    if N in L["pub"] or N in L["glob"]:
                        res.fault("def", ev, "FORWARD of the exported symbol %s" % name)      # [FWD]
                    elif N in L["fwd"]:
                        raise Discard("FORWARD repeated")
                    else:
                        L["fwd"][N] = ev
                    continue
                mine, other = ("glob", "pub") if it.get("g") else ("pub", "glob")
                if N in L["fwd"]:
                    res.fault("def", ev, "%s of the FORWARD symbol %s" % ("GLOBAL" if it.get("g") else "PUBLIC", name))
                    continue
                if N in L[other] or N in L[mine]:
                    raise Discard("symbol exported twice")
                r = identify(ev.path, "" if q is None else q, ev)
                if r[0] == "bad":
                    raise Discard("PUBLIC/GLOBAL to a section outside the parent path")
                if r[1] == cur:
                    raise Discard("PUBLIC/GLOBAL to the current section")
                L[mine][N] = (r[1], ev)
            continue
        if k == "ref" and (it.get("str") or it.get("reg")):
            fwd_at[ev.i] = (cur is not None and it.get("q") is None and F(it["n"]) in lists[cur]["fwd"])
            continue
        if k == "tdef":
            if state["amb_area"]:
                res.disable.add(ev.iid)
                continue
            N = F(it["n"]) + "#%d" % state["counter"]              # [T1]
            enter((N, cur), "const", ev.addr, ev, "$$" + it["n"], None, True)
            state["amb_dot"] = True
            continue
        if k == "ndef":
            e = Entity("const", ev.addr, ev, cur, it["c"], None, True)
            if it["c"] in "-/":
                minus.append((ev.i, e))
            if it["c"] in "+/":
                plus.append((ev.i, e))
            state["amb_dot"] = True
            continue
        if k == "cdef":
            if state["amb_dot"] or state["last"] is None:
                res.disable.add(ev.iid)
                continue
            full = state["last"] + "." + it["n"]                      # [T3]
            enter((F(full), cur), "const", ev.addr, ev, full, None, True)
            continue

    # ------------------------------------------------------------ pass B: references in program order
    cur_val = {}      # id(Entity) -> current value of a variable
    stacks = {}
    tags_stack = set()

    def lookup(ev, name, q, use_loc=True, before=None):
        """-> (status, Entity|None, tags); before: only symbols whose (first) definition precedes that event"""
        N = F(name)

        def get(key, tab=table):
            e = tab.get(key)
            if e is not None and before is not None and e.ev.i >= before:
                return None
            return e
        if q is None:
            if use_loc and ev.exp is not None:
                e = get((N, ev.exp), loc)
                if e is not None:
                    return "ok", e, ["macro-local"]
            for up, sid in enumerate(reversed(ev.path)):          # [LS2]
                e = get((N, sid))
                if e is not None:
                    return "ok", e, ["up%d" % up]
            e = get((N, None))
            if e is not None:
                return "ok", e, ["upglobal" if ev.path else "global"]
            return "undef", None, []
        r = identify(ev.path, q, ev)
        if r[0] == "bad":
            return "qual", None, []
        e = get((N, r[1]))
        if e is None:
            return "undef", None, []
        return "ok", e, []

    computing = set()

    def const_value(e, at=None):
        """value of a constant; constants defined as `symbol+delta` are evaluated on demand (the final pass
        knows all of them).  at: the event being executed if that is the constant's own definition"""
        if e.value is not None:
            return e.value
        if e.thunk is None or id(e) in computing:
            raise Discard("constants defined in terms of each other")
        tev, tit = e.thunk
        computing.add(id(e))
        st, t, _ = lookup(tev, tit["of"]["n"], tit["of"].get("q"))
        if st != "ok" or t.str or t.reg:
            raise Discard("constant defined by an unresolvable symbol is needed")
        if t.kind == "var":
            if at is None or at.i != tev.i or id(t) not in cur_val:
                raise Discard("constant defined by a variable is needed before its definition")
            v = cur_val[id(t)]
        else:
            v = const_value(t)
        computing.discard(id(e))
        e.value = v + tit["v"]
        return e.value

    def value_of(e, ev):
        """value of the entity when read at event ev; None if the manual does not settle it"""
        if e.kind == "const":
            return const_value(e)
        return cur_val.get(id(e))

    for ev in prog.events:
        it, k = ev.item, ev.kind
        if k in ("open", "close", "call"):
            continue
        if ev.iid in off:
            if k in ("ref", "tref", "nref", "cref"):
                s = Slot(ev, len(prog.cpu["insb"]) if it.get("ins") else 0)
                s.status, s.value = "value", (0x3000 if it.get("reg") else 0)
                s.tags = ["off"]
                res.slots.append(s)
            continue
        counter, last, amb_area, amb_dot = snap[ev.i]
        if k == "def":
            of = it.get("of")
            faulty = ev.iid in res.faults["def"]
            if of:
                # the expression must have a value in pass 1 already (manual, Forward References: "an EQU
                # containing forward references will not be done at all in the first pass"), and the symbol
                # the final pass finds must have a value at this point
                st1, _, _ = lookup(ev, of["n"], "P0" if fwd_at.get(ev.i) else of.get("q"), before=ev.i)
                st, t, _ = lookup(ev, of["n"], of.get("q"))
                if st1 != "ok" or st != "ok" or t.str or t.reg or (t.kind == "var" and id(t) not in cur_val):
                    res.disable.add(ev.iid)
                    continue
            if faulty:
                continue
            if it["how"] in VAR_HOW:
                cur = ev.path[-1] if ev.path else None
                e = table.get((F(it["n"]), cur))
                if e is None or e.kind != "var":
                    raise Discard("internal: variable entry missing")
                cur_val[id(e)] = (value_of(t, ev) + it["v"]) if of else it["v"]
            elif of:
                cur = ev.path[-1] if ev.path else None
                for e in table.values():
                    if e.thunk is not None and e.thunk[0] is ev and e.value is None:
                        const_value(e, at=ev)
            continue
        if k in ("pushv", "popv"):
            S = F(it["s"]) if it["s"] else ""
            for a in it["a"]:
                st, e, _ = lookup(ev, a["n"], a.get("q"), use_loc=False)
                if st != "ok" or e.reg:
                    raise Discard("PUSHV/POPV of an unresolvable symbol or a register symbol")
                if k == "pushv":
                    v = value_of(e, ev)
                    if v is None or (e.kind == "const" and e.ev.i > ev.i):
                        raise Discard("PUSHV of a symbol that does not exist yet")
                    stacks.setdefault(S, []).append((v, e.str))        # [PV]
                else:
                    if e.kind != "var" or id(e) not in cur_val:
                        raise Discard("POPV into a constant or a variable that does not exist yet")
                    if not stacks.get(S):
                        raise Discard("POPV from an empty stack")
                    v, vs = stacks[S].pop()
                    if vs != e.str:
                        raise Discard("POPV changes the type of a variable")
                    cur_val[id(e)] = v
                    tags_stack.add("string" if vs else "integer")
                    if not stacks[S]:
                        del stacks[S]
            continue
        if k not in ("ref", "tref", "nref", "cref"):
            continue
        s = Slot(ev, len(prog.cpu["insb"]) if it.get("ins") else 0)
        res.slots.append(s)
        tags = []
        st, e = None, None
        if k == "ref":
            q = it.get("q")
            if U and it.get("pl"):
                raise Discard("PARENTn spelled in lower case under -U")
            if q is not None and ev.exp is not None and (F(it["n"]), ev.exp) in loc:
                raise Discard("section qualifier on the name of a macro-local label")
            st, e, tags = lookup(ev, it["n"], q)
            form = "plain" if q is None else "empty" if q == "" else "name" if q[0] == "=" else "parent"
            tags = ["form:" + form] + tags
            if q is not None and q[:1] == "P":
                n = 1 if len(q) == 1 else int(q[1:])
                tags.append("parent%d%s" % (n, "=global" if n == len(ev.path) else ">depth" if n > len(ev.path) else ""))
        elif k == "tref":
            if amb_area:
                st = "skip"
            else:
                st, e, tags = lookup(ev, it["n"] + "#%d" % counter, None, use_loc=False)
                tags = ["form:named-temp"] + tags
        elif k == "cref":
            if amb_dot or last is None:
                st = "skip"
            else:
                st, e, tags = lookup(ev, last + "." + it["n"], None, use_loc=False)
                tags = ["form:composed"] + tags
        elif k == "nref":
            d = it["d"]
            if it["c"] == "-":
                prev = [x for x in minus if x[0] < ev.i]
                e = prev[-d][1] if len(prev) >= d else None          # [T2] the d-th last minus symbol
            else:
                nxt = [x for x in plus if x[0] > ev.i]
                e = nxt[d - 1][1] if len(nxt) >= d else None         # [T2] the d-th next plus symbol
            if e is None:
                st = "skip"          # fewer than d such symbols: not settled by the manual
            elif e.sect is not None and e.sect not in ev.path:
                st = "skip"          # defined in a section that is not open here: not settled by the manual
            else:
                st = "ok"
                tags = ["form:nameless" + it["c"], "dist%d" % d, "slash" if e.name == "/" else "sign",
                        "across-section" if e.sect != (ev.path[-1] if ev.path else None) else "same-section"]
        if st == "ok" and (e.str != bool(it.get("str")) or e.reg != bool(it.get("reg"))):
            raise Discard("symbol read as another type than it has")
        if k == "ref" and (it.get("str") or it.get("reg")) and st == "ok":
            # VAL() needs a string in every pass: an unknown symbol of pass 1 is replaced by the program counter
            # (an integer).  Register symbols: "forward references are even more critical ... AS does not know
            # which type it is going to have, and will decide for a plain integer number".  Only read such
            # symbols where pass 1 already finds a symbol of that type under the name.
            st1, e1, _ = lookup(ev, it["n"], "P0" if fwd_at.get(ev.i) else it.get("q"), before=ev.i)
            if st1 != "ok" or e1.str != e.str or e1.reg != e.reg:
                st = "skip"
        elif k == "ref" and (it.get("str") or it.get("reg")) and st in ("undef", "qual"):
            st = "skip"          # VAL(unknown symbol) ends pass 1 with a fatal 'internal error': not a C13 matter
        if st == "ok":
            v = value_of(e, ev)
            if v is None:
                st = "skip"          # variable read before its first assignment: forward reference to a variable
                tags.append("var-before-set")
            else:
                s.status, s.value = "value", (v + expr_delta(it)) & 0xffff
                if e.reg:
                    s.value = 0x3000 | v          # MOVE.W <register>,D0
                    tags.append("register-symbol")
                if it.get("x"):
                    tags.append("in-expression")
                if it.get("ins"):
                    tags.append("instruction-operand")
                tags.append(e.kind)
                if e.str:
                    tags.append("string")
                if e.cmdline:
                    tags.append("cmdline-symbol")
                if e.thunk is not None:
                    tags.append("by-expression")
                if ev.body == "rept":
                    tags.append("in-rept")
                if e.via:
                    tags.append("via-" + e.via)
                if e.kind == "const":
                    tags.append("before-def" if e.ev.i > ev.i else "after-def")
                if ev.exp is not None:
                    tags.append("in-macro")
                # shadowing: is there another definition of this name further out?
                if k == "ref":
                    N = F(it["n"])
                    homes = [sid for sid in list(ev.path) + [None] if (N, sid) in table]
                    if len(homes) > 1:
                        tags.append("shadowing%d" % min(len(homes), 3))
        if st == "skip":
            s.status = "skip"
            res.disable.add(ev.iid)
        elif st == "undef":
            s.status = "undef"
            res.fault("undef", ev, "undefined %s" % prog.text(it, False).strip())
        elif st == "qual":
            s.status = "qual"
            res.fault("qual", ev, "section not in the parent path: %s" % prog.text(it, False).strip())
        s.tags = tags
        s.text = prog.text(it, False).strip()
    if stacks:
        raise Discard("unbalanced PUSHV/POPV")
    res.tags = {"popv-" + t for t in tags_stack}
    return res


def settle(prog, U, max_rounds=12):
    """fixpoint: switch off the items the manual does not settle, then the faulty ones.
    returns (off_base, res_base, faults) where res_base is the evaluation of the fault-free program and
    faults = {class: {iid: (line, why)}} of the program with only the unsettled items switched off."""
    off = set()
    for _ in range(max_rounds):
        res = evaluate(prog, U, frozenset(off))
        new = res.disable - off
        if not new:
            break
        off |= new
    else:
        raise Discard("exclusions do not settle")
    faults = res.faults
    off_base = set(off)
    for cls in faults.values():
        off_base |= set(cls)
        for rec in cls.values():
            off_base |= set(rec[2])
    if off_base == off:
        return off_base, res, faults
    for _ in range(max_rounds):
        base = evaluate(prog, U, frozenset(off_base))
        if any(base.faults.values()):
            raise Discard("removing the faulty statements uncovers further faults")
        new = base.disable - off_base
        if not new:
            return off_base, base, faults
        off_base |= new
    raise Discard("exclusions do not settle")
