"""C03 judge: classify one finished run of a sanitizer-built binary.

A finding is (kind, signature).  kind in: signal, asan, ubsan-bounds, badstatus, hang.
signature = "<tool>|<kind detail>|<top in-repo frames>" - the call site identification used by the
known-findings predicates.
"""
import re

FRAME = re.compile(r"^\s*#\d+ 0x[0-9a-f]+ in (\S+) (\S+?):(\d+)", re.M)
DOC_STATUS = {"asl": {0, 2, 3, 4}, "p2bin": {0, 1, 2, 3}, "p2hex": {0, 1, 2, 3}, "pbind": {0, 1, 2, 3},
              "plist": {0, 1, 2, 3}, "alink": {0, 1, 2, 3}, "dasl": {0, 1, 2, 3, 4}}


def frames(text, n=3):
    out = []
    for fn, path, line in FRAME.findall(text):
        if "/repo" in path or path.startswith("/tmp/") or "wt-" in path or path.endswith(".c"):
            base = path.rsplit("/", 1)[-1]
            if base.startswith(("asan_", "sanitizer_")):
                continue
            out.append(fn)
            if len(out) >= n:
                break
    return out


def judge(tool, r):
    """r: run.Result of the asan flavour.  Returns None or dict(kind, sig, why)."""
    err = r.err
    if "ERROR: AddressSanitizer" in err:
        m = re.search(r"ERROR: AddressSanitizer: (\S+)", err)
        what = m.group(1) if m else "?"
        fr = frames(err)
        return dict(kind="asan", sig="%s|%s|%s" % (tool, what, ">".join(fr[:2])),
                    why="AddressSanitizer: %s in %s" % (what, " <- ".join(fr)))
    if "runtime error:" in err:
        m = re.search(r"(\S+?):(\d+):\d+: runtime error: ([^\n]*)", err)
        loc = "%s:%s" % (m.group(1).rsplit("/", 1)[-1], m.group(2)) if m else "?"
        return dict(kind="ubsan-bounds", sig="%s|bounds|%s" % (tool, loc),
                    why="bounds check failed at %s: %s" % (loc, m.group(3) if m else ""))
    if r.signal:
        if r.signal in (24, 25) or r.signal == 9 and r.timed_out:
            return None     # harness resource limits (CPU, file size) / wall kill: never findings by themselves
        return dict(kind="signal", sig="%s|signal%d" % (tool, r.signal), why="killed by signal %d" % r.signal)
    if r.status is not None and r.status not in DOC_STATUS.get(tool, {0, 1, 2, 3, 4}):
        return dict(kind="badstatus", sig="%s|status%d" % (tool, r.status),
                    why="exit status %d is not a documented status of %s" % (r.status, tool))
    return None
