"""Generators, reference tables and the PLIST table grammar for C07 (pbind / plist).

Everything here is independent of the tools' sources except where stated: the id -> family table
and the segment table are copied from doc/file-formats.md, the abbreviations PLIST prints for a
family are paired with the documented family by hand (the manual does not define them).

A generated file is JSON:
  dict(name, arg, creator, recs=[...])      name = file name on disk, arg = how it is named on the
                                            command line (with or without the .p extension)
  record: dict(kind='data', cpu, seg, gran, addr, pay, form)   pay = ['hex', '<hex>'] | ['pat', n, a, b]
          dict(kind='entry', addr)
"""
import re
from . import pfile

# ---------------------------------------------------------------- documented tables

# doc/file-formats.md, table "Header Bytes for the Different Processor Families":
#   id: (family as the manual names it, abbreviations accepted in PLIST's code-type column)
# 0x35 is listed twice in the manual (Z8000 and Super8) and 0x34 not at all: both are left out, records
# with these ids are generated as "undocumented id" (family column not judged).
FAMILY = {
    0x01: ("680x0, 6833x", ["680x0"]),
    0x02: ("ATARI_VECTOR", ["ATARI_VECTOR"]),
    0x03: ("M*Core", ["M-CORE", "M*Core"]),
    0x04: ("XGATE", ["XGATE"]),
    0x05: ("PowerPC", ["MPC601", "PowerPC"]),
    0x06: ("XCore", ["XCore"]),
    0x07: ("TMS1000", ["TMS1000"]),
    0x08: ("NS32xxx", ["NS32000", "NS32xxx"]),
    0x09: ("DSP56xxx", ["DSP56000", "DSP56xxx"]),
    0x0a: ("CP1600", ["CP1600"]),
    0x11: ("65xx/MELPS-740", ["65xx", "65xx/MELPS-740"]),
    0x12: ("MELPS-4500", ["MELPS-4500"]),
    0x13: ("M16", ["M16"]),
    0x14: ("M16C", ["M16C"]),
    0x15: ("F2MC8L", ["F2MC8", "F2MC8L"]),
    0x16: ("F2MC16L", ["F2MC16", "F2MC16L"]),
    0x19: ("65816/MELPS-7700", ["MELPS-7700", "65816/MELPS-7700"]),
    0x1a: ("PDK13", ["PDK13"]),
    0x1b: ("PDK14", ["PDK14"]),
    0x1c: ("PDK15", ["PDK15"]),
    0x1d: ("PDK16", ["PDK16"]),
    0x21: ("MCS-48", ["MCS-48"]),
    0x25: ("SYM53C8xx", ["SYM53C8xx"]),
    0x27: ("KENBAK", ["KENBAK"]),
    0x29: ("29xxx", ["29xxx"]),
    0x2a: ("i960", ["i960"]),
    0x31: ("MCS-51", ["MCS-(2)51", "MCS-51"]),
    0x32: ("ST9", ["ST9"]),
    0x33: ("ST7", ["ST7"]),
    0x36: ("MN161x", ["MN161x"]),
    0x37: ("2650", ["2650"]),
    0x38: ("1802/1805", ["1802", "1802/1805"]),
    0x39: ("MCS-96/196/296", ["MCS-96/196", "MCS-96/196/296"]),
    0x3a: ("8X30x", ["8X30x"]),
    0x3b: ("AVR", ["AVR"]),
    0x3c: ("XA", ["XA"]),
    0x3d: ("AVR (8-Bit Code-Segment)", ["AVR(CSEG8)"]),
    0x3e: ("8008", ["8008"]),
    0x3f: ("4004/4040", ["4004/4040"]),
    0x40: ("H16", ["H16"]),
    0x41: ("8080/8085", ["8080/8085"]),
    0x42: ("8086...V35", ["8086", "8086...V35"]),
    0x43: ("SX20", ["SX20"]),
    0x44: ("F8", ["F8"]),
    0x45: ("S12Z", ["S12Z"]),
    0x46: ("78K4", ["78K4"]),
    0x47: ("TMS320C6x", ["TMS320C6x"]),
    0x48: ("TMS9900", ["TMS9900"]),
    0x49: ("TMS370xxx", ["TMS370xx", "TMS370xxx"]),
    0x4a: ("MSP430", ["MSP430"]),
    0x4b: ("TMS320C54x", ["TMS320C54x"]),
    0x4c: ("80C166/167", ["80C166/167"]),
    0x4d: ("OLMS-50", ["OLMS-50"]),
    0x4e: ("OLMS-40", ["OLMS-40"]),
    0x4f: ("MIL STD 1750", ["1750", "MIL STD 1750"]),
    0x50: ("HMCS-400", ["HMCS400", "HMCS-400"]),
    0x51: ("Z80/180/380", ["Zx80", "Z80/180/380"]),
    0x52: ("TLCS-900", ["TLCS-900"]),
    0x53: ("TLCS-90", ["TLCS-90"]),
    0x54: ("TLCS-870", ["TLCS-870"]),
    0x55: ("TLCS-47", ["TLCS-47xx", "TLCS-47"]),
    0x56: ("TLCS-9000", ["TLCS-9000"]),
    0x57: ("TLCS-870/C", ["TLCS-870/C"]),
    0x58: ("NEC 78K3", ["78K3", "NEC 78K3"]),
    0x59: ("eZ8", ["eZ8"]),
    0x5a: ("TC9331", ["TC9331"]),
    0x5b: ("KCPSM3", ["KCPSM3"]),
    0x5c: ("LatticeMico8", ["Mico8", "LatticeMico8"]),
    0x5d: ("NEC 75xx", ["75xx", "NEC 75xx"]),
    0x5e: ("68RS08", ["68RS08"]),
    0x5f: ("COP4", ["COP4"]),
    0x60: ("78K2", ["78K2"]),
    0x61: ("6800, 6301, 6811", ["68xx"]),
    0x62: ("6805/HC08", ["6805/HC08"]),
    0x63: ("6809", ["6809"]),
    0x64: ("6804", ["6804"]),
    0x65: ("68HC16", ["68HC16"]),
    0x66: ("68HC12", ["68HC12"]),
    0x67: ("ACE", ["ACE"]),
    0x68: ("H8/300(H)", ["H8/300(H)"]),
    0x69: ("H8/500", ["H8/500"]),
    0x6a: ("807x", ["807x"]),
    0x6b: ("KCPSM", ["KCPSM"]),
    0x6c: ("SH7000", ["SH7x00", "SH7000"]),
    0x6d: ("SC14xxx", ["SC14XXX", "SC14xxx"]),
    0x6e: ("SC/MP", ["SC/MP"]),
    0x6f: ("COP8", ["COP8"]),
    0x70: ("PIC16C8x", ["16C8x", "PIC16C8x"]),
    0x71: ("PIC16C5x", ["16C5x", "PIC16C5x"]),
    0x72: ("PIC17C4x", ["17C4x", "PIC17C4x"]),
    0x73: ("TMS-7000", ["TMS7000", "TMS-7000"]),
    0x74: ("TMS3201x", ["TMS3201x"]),
    0x75: ("TMS320C2x", ["TMS3202x", "TMS320C2x"]),
    0x76: ("TMS320C3x/C4x", ["TMS320C3x/C4x"]),
    0x77: ("TMS320C20x/C5x", ["TMS320C5x", "TMS320C20x/C5x"]),
    0x78: ("ST6", ["ST6"]),
    0x79: ("Z8", ["Z8"]),
    0x7a: ("uPD78(C)10", ["78(C)xx", "uPD78(C)10"]),
    0x7b: ("75K0", ["75K0"]),
    0x7c: ("78K0", ["78K0"]),
    0x7d: ("uPD7720", ["7720", "uPD7720"]),
    0x7e: ("uPD7725", ["7725", "uPD7725"]),
    0x7f: ("uPD77230", ["77230", "uPD77230"]),
}
DOC_IDS = sorted(FAMILY)
UNDOC_IDS = [i for i in range(1, 0x80) if i not in FAMILY]     # format allows any $01..$7f header

# doc/file-formats.md table "Codings of the Segment Field"; the SEGMENT statement of the assembler
# manual spells segment 6 BITDATA and the symbol table section of segment 0 NOTHING: both accepted
SEGMENT = {0: ["<undefined>", "NOTHING"], 1: ["CODE"], 2: ["DATA"], 3: ["IDATA"], 4: ["XDATA"], 5: ["YDATA"],
           6: ["BDATA", "BITDATA"], 7: ["IO"], 8: ["REG"], 9: ["ROMDATA"]}

LEN_BOUNDARY = [0, 1, 2, 255, 256, 511, 512, 513, 8191, 8192, 8193, 16384, 65535]
ADDR_BOUNDARY = [0, 1, 0xff, 0x100, 0xffff, 0x10000, 0x7fffffff, 0x80000000, 0xffff0000]
CREATORS = ["AS 1.42 Beta [Bld 212]/x86_64-Linux", "BIND/C 1.42", "x", "AS 1.42/x86_64-unknown-linux", "AS 1.41r8/i386-unknown-win32", "my own tool (c) 1999"]


# ---------------------------------------------------------------- payload

_ROT = [bytes((x + k) & 0xff for x in range(256)) for k in range(256)]
_PCACHE = {}


def payload(pay):
    """bytes of a payload description (pure function): byte i = (i*a + b + (i >> 8)*29) mod 256"""
    if pay[0] == "hex":
        return bytes.fromhex(pay[1])
    _, n, a, b = pay
    key = (n, a, b)
    hit = _PCACHE.get(key)
    if hit is not None:
        return hit
    base = bytes((i * a + b) & 0xff for i in range(256))
    out = b"".join(base.translate(_ROT[(k * 29) & 0xff]) for k in range((n + 255) // 256))[:n]
    if len(_PCACHE) > 64:
        _PCACHE.clear()
    _PCACHE[key] = out
    return out


def paylen(pay):
    return len(pay[1]) // 2 if pay[0] == "hex" else pay[1]


def to_records(jrecs):
    out = []
    for r in jrecs:
        if r["kind"] == "data":
            out.append(pfile.data(r["cpu"], r["addr"], payload(r["pay"]), r["seg"], r["gran"], r["form"]))
        else:
            out.append(pfile.entry(r["addr"]))
    return out


def file_bytes(jfile):
    recs = to_records(jfile["recs"]) + [pfile.creator(jfile["creator"])]
    return pfile.build(recs, with_creator=False)


# ---------------------------------------------------------------- generators

def gen_len(d, gran):
    kind = d.weighted([(9, "small"), (7, "boundary"), (3, "mid"), (1, "large")])
    if kind == "small":
        n = d.int(1, 64)
    elif kind == "boundary":
        n = d.choice(LEN_BOUNDARY)
    elif kind == "mid":
        n = d.int(65, 9000)
    else:
        n = d.int(9001, 65535)
    return n - n % gran


def gen_addr(d, units):
    kind = d.weighted([(5, "low"), (4, "boundary"), (2, "any"), (2, "top")])
    if kind == "low":
        a = d.int(0, 0x2000)
    elif kind == "boundary":
        a = d.choice(ADDR_BOUNDARY) + d.int(-2, 2)
    elif kind == "any":
        a = d.int(0, 0xffffffff)
    else:
        a = 0x100000000 - max(units, 1) - d.int(0, 3)      # record ends at or just below $ffffffff
    a = max(0, min(a, 0xffffffff))
    if units and a + units - 1 > 0xffffffff:               # keep the last address representable
        a = 0x100000000 - units
    return a


def gen_record(d, cpus, segs, allow_undoc):
    cpu = d.choice(cpus)
    if allow_undoc and d.weighted([(24, False), (1, True)]):
        cpu = d.choice(UNDOC_IDS)
    form = d.weighted([(5, "long"), (4, "short")])
    if form == "short":
        seg, gran = 1, pfile.implied_gran(cpu, 1)
    else:
        seg = d.choice(segs)
        # mostly the granularity the family implies (so that the record *could* be written short),
        # sometimes any other documented power of two: such a record must stay in the long form
        gran = pfile.implied_gran(cpu, seg) if d.bool(0.75) else d.choice([1, 2, 4, 8])
    n = gen_len(d, gran)
    addr = gen_addr(d, n // gran)
    if n <= 12 and d.bool(0.5):
        pay = ["hex", d.bytes(n).hex()]
    else:
        pay = ["pat", n, d.int(0, 127) * 2 + 1, d.int(0, 255)]
    return dict(kind="data", cpu=cpu, seg=seg, gran=gran, addr=addr, pay=pay, form=form)


def gen_file(d, idx, cpus, segs, allow_undoc=True):
    nrec = d.weighted([(4, 1), (5, 2), (4, 3), (2, 4), (1, 0), (1, 6), (1, 16)])
    recs = [gen_record(d, cpus, segs, allow_undoc) for _ in range(nrec)]
    em = d.weighted([(5, "none"), (4, "end"), (1, "middle")])
    if em == "end":
        recs.append(dict(kind="entry", addr=d.choice([0, 0x1234, 0xffffffff, 0x8000]) if d.bool(0.5) else d.int(0, 0xffffffff)))
    elif em == "middle":
        recs.insert(d.int(0, len(recs)), dict(kind="entry", addr=d.int(0, 0xffffffff)))
    base = d.choice(["a", "prog", "m", "x1"]) + str(idx)
    ext = d.weighted([(5, ".p"), (4, ""), (1, ".cod")])
    # ext "": file is <base>.p on disk and named <base> on the command line (extension is added by the tool)
    name = base + (".p" if ext == "" else ext)
    return dict(name=name, arg=base + ext, creator=d.choice(CREATORS), recs=recs)


def gen_files(d, allow_undoc=True):
    nfiles = d.weighted([(4, 1), (5, 2), (3, 3), (2, 4)])
    ncpu = d.weighted([(2, 1), (4, 2), (3, 3), (1, 5)])
    cpus = [d.choice(DOC_IDS) for _ in range(ncpu)]
    if d.bool(0.5):                                        # make granularity 2/4 families common
        cpus[0] = d.choice([0x70, 0x71, 0x74, 0x3b, 0x76, 0x09, 0x7d, 0x12, 0x1a])
    segs = d.weighted([(3, [1]), (3, [1, 2]), (2, [1, 2, 4, 7]), (2, list(range(1, 10))), (1, list(range(0, 10)))])
    files = [gen_file(d, i, cpus, segs, allow_undoc) for i in range(nfiles)]
    if nfiles < 4 and d.weighted([(11, False), (1, True)]):
        files.append(dict(files[d.int(0, nfiles - 1)]))      # the same file named twice on the command line
    return files, cpus


def number(v, style):
    """the notations the utilities' manual chapter documents for numeric arguments"""
    if style == "dec":
        return str(v)
    if style == "dollar":
        return "$%x" % v
    if style == "DOLLAR":
        return "$%X" % v
    if style == "0x":
        return "0x%x" % v
    h = "%xh" % v
    return h if h[0].isdigit() else "0" + h


STYLES = ["dec", "dollar", "DOLLAR", "0x", "h"]


# ---------------------------------------------------------------- PLIST table grammar

ROW_DATA = re.compile(r"^(?P<fam>\S.*?)\s+(?P<seg>\S+)\s+(?P<start>[0-9A-Fa-f]{8})\s+(?P<len>[0-9A-Fa-f]{4})\s+"
                      r"(?P<end>[0-9A-Fa-f]{8})$")
ROW_ENTRY = re.compile(r"^<entry point>\s+(?P<addr>[0-9A-Fa-f]{8})$")
ROW_CREATOR = re.compile(r"^creator : (?P<text>.*)$")
ROW_TOTAL = re.compile(r"^(?P<head>altogether)?\s*(?P<num>\S+) (?P<unit>bytes?)\s+(?P<seg>\S+)$")


class ListingError(Exception):
    pass


def parse_plist(text, file_names):
    """table grammar of PLIST's standard output.

    listing  := [banner] header dashes { [filename] row* creator-row } blank total+
    row      := data-row | entry-row
    returns dict(files=[dict(name|None, rows=[...], creator=str)], totals=[(segment name, number text)],
                 banner=bool)
    Raises ListingError when a line fits no production."""
    lines = text.split("\n")
    if lines and lines[-1] == "":
        lines.pop()
    # header: everything up to the line of dashes
    try:
        dash = next(i for i, l in enumerate(lines) if l.strip() and set(l.strip()) == {"-"})
    except StopIteration:
        raise ListingError("no table header (line of dashes) found")
    if dash == 0 or "Start" not in lines[dash - 1] or "Length" not in lines[dash - 1]:
        raise ListingError("line before the dashes is not the column title line: %r" % lines[max(0, dash - 1)])
    banner = any(l.strip() for l in lines[:dash - 1])
    files = []
    cur = None
    i = dash + 1
    n = len(lines)
    while i < n and lines[i].strip() != "" and not lines[i].startswith("altogether"):
        raw = lines[i]
        l = raw.strip()
        i += 1
        if l in file_names and (cur is None or cur["closed"]):
            cur = dict(name=l, rows=[], creator=None, closed=False)
            files.append(cur)
            continue
        if cur is None or cur["closed"]:
            cur = dict(name=None, rows=[], creator=None, closed=False)
            files.append(cur)
        m = ROW_CREATOR.match(l)
        if m:
            cur["creator"] = m.group("text")
            cur["closed"] = True
            continue
        m = ROW_ENTRY.match(l)
        if m:
            cur["rows"].append(dict(kind="entry", addr=int(m.group("addr"), 16)))
            continue
        m = ROW_DATA.match(l)
        if m:
            cur["rows"].append(dict(kind="data", fam=m.group("fam").strip(), seg=m.group("seg"),
                                    start=int(m.group("start"), 16), len=int(m.group("len"), 16),
                                    end=int(m.group("end"), 16)))
            continue
        raise ListingError("line %d fits no row production: %r" % (i, raw))
    totals = []
    while i < n and lines[i].strip() == "":
        i += 1
    first = True
    while i < n:
        raw = lines[i]
        i += 1
        if raw.strip() == "":
            continue
        m = ROW_TOTAL.match(raw.strip())
        if not m:
            raise ListingError("line %d is not a total line: %r" % (i, raw))
        if first and not m.group("head"):
            raise ListingError("first total line lacks its caption: %r" % raw)
        first = False
        totals.append((m.group("seg"), m.group("num")))
    return dict(files=files, totals=totals, banner=banner)
