import os, sys
from . import engine


def main(argv):
    if not argv:
        print("usage: ./check Cxx [--tier quick|thorough] [--replay FILE]")
        return 2
    cid = argv[0].upper()
    tier = os.environ.get("VERIF_TIER", "quick") or "quick"
    replay = None
    i = 1
    while i < len(argv):
        if argv[i] == "--tier":
            tier = argv[i + 1]; i += 2
        elif argv[i] == "--replay":
            replay = argv[i + 1]; i += 2
        else:
            print("unknown argument " + argv[i]); return 2
    if tier not in ("quick", "thorough"):
        tier = "quick"
    return engine.main_check(cid, tier, replay)


if __name__ == "__main__":
    sys.exit(main(sys.argv[1:]))
