"""Parsers for the assembly listing, the MAP debug file, share files and the ASL_VERIF_TRACE file."""
import re

DIGITS = "0123456789ABCDEFGHIJKLMNOPQRSTUVWXYZ"
LISTLINESPACE = 20


def to_radix(v, r):
    if v == 0:
        return "0"
    s = ""
    while v:
        s = DIGITS[v % r] + s
        v //= r
    return s


def unit_lengths(radix):
    return {len(to_radix(0xff, radix)): 1, len(to_radix(0xffff, radix)): 2, len(to_radix(0xffffffff, radix)): 4}


LINE_RE = re.compile(r"^(?:\((\d+)\)|   )\s*(\d+)/\s*([0-9A-Za-z]+) ([:R]) (.*)$")
CONT_RE = re.compile(r"^ {9,12}\s*([0-9A-Za-z]+) ([:R]) ?(.*)$")


def parse_listing(text, radix=16):
    """returns (entries, symtab text).  entry = dict(depth, line, addr, units=[(value, size)], src)
    Only the source part (before the first 'Symbol Table' page) is parsed."""
    ul = unit_lengths(radix)
    entries = []
    cur = None
    lines = text.split("\n")
    for ln in lines:
        if "Symbol Table (* = unused)" in ln or "Symboltabelle" in ln:
            break
        if ln.startswith("> > >") or ln.startswith(" AS V") or not ln.strip() or ln.startswith("\f"):
            continue
        m = LINE_RE.match(ln)
        if m:
            depth = int(m.group(1)) if m.group(1) else 0
            try:
                addr = int(m.group(3), radix)
            except ValueError:
                cur = None
                continue
            rest = m.group(5)
            field, src = rest[:LISTLINESPACE], rest[LISTLINESPACE:]
            cur = dict(depth=depth, line=int(m.group(2)), addr=addr, units=[], src=src, retracted=m.group(4) == "R",
                       special=None)
            if field.startswith(("=", "(MACRO)", "[")) or field.strip().startswith(("=", "(", "[")):
                cur["special"] = field.strip()
            else:
                if not _units(field, radix, ul, cur):
                    cur["special"] = field.strip()
            entries.append(cur)
            continue
        m = CONT_RE.match(ln)
        if m and cur is not None and cur["special"] is None:
            before = sum(u[1] for u in cur["units"])
            if _units(m.group(3)[:LISTLINESPACE], radix, ul, cur) and len(cur["units"]) and \
                    sum(u[1] for u in cur["units"]) > before:
                # address shown on the continuation line, bytes listed before it
                try:
                    cur.setdefault("cont", []).append((int(m.group(1), radix), before))
                except ValueError:
                    pass
    return entries


def _units(field, radix, ul, cur):
    toks = field.split()
    got = []
    for t in toks:
        if len(t) not in ul:
            return False
        try:
            v = int(t, radix)
        except ValueError:
            return False
        if v >= 1 << (8 * ul[len(t)]):
            return False          # not a dump of that many bytes (text that merely has the right width)
        got.append((v, ul[len(t)]))
    cur["units"] += got
    return True


SYM_RE = re.compile(r"[* ]?(\S+) :\s+(.*?) (\S) \|")


def parse_symtab(text):
    """{name: (value text, segment letter)} for symbols without section suffix"""
    m = re.search(r"Symbol Table.*?\n(.*?)\n\s*\d+ symbols?", text, re.S | re.I)
    out = {}
    if not m:
        return out
    for line in m.group(1).split("\n"):
        if line.startswith(" AS V"):
            continue
        for name, val, seg in SYM_RE.findall(line):
            out[name.lstrip("*")] = (val.strip(), seg)
    return out


def parse_map(text):
    """returns (lineinfo=[(segment, file, line, addr)], symbols={name: (type, value text, segment)})"""
    info, syms = [], {}
    seg = fil = None
    symseg = None
    for ln in text.split("\n"):
        s = ln.strip()
        if not s or s.startswith(";"):
            continue
        if s.startswith("Symbols in Segment"):
            symseg = s.split()[-1]
            continue
        if s.startswith("Info for Section"):
            symseg = None
            seg = None
            break
        if s.startswith("Segment "):
            seg = s.split()[1]
            symseg = None
            continue
        if s.startswith("File "):
            fil = s[5:].strip()
            continue
        if symseg is not None:
            f = s.split()
            if len(f) >= 6:
                syms[f[0]] = (f[1], f[2], symseg)
            continue
        if seg is not None:
            for a, b in re.findall(r"(\d+):([0-9A-Fa-f]+)", s):
                info.append((seg, fil, int(a), int(b, 16)))
    return info, syms


def parse_trace(text):
    """list of dict(pass, file, line, seg, gran, load, phase, kind, data(bytes)|n)"""
    out = []
    for ln in text.split("\n"):
        f = ln.split(" ")
        if len(f) < 9:
            continue
        try:
            d = dict(npass=int(f[0]), file=f[1], line=int(f[2]), seg=int(f[3]), gran=int(f[4]),
                     load=int(f[5], 16), phase=int(f[6], 16), kind=f[7])
        except ValueError:
            continue
        if d["kind"] == "code":
            d["data"] = bytes.fromhex(f[8])
        else:
            d["n"] = int(f[8])
        out.append(d)
    return out


def parse_share(text):
    """{name: int} from any of the three share formats"""
    out = {}
    for ln in text.split("\n"):
        m = re.match(r"^#define\s+(\S+)\s+(\S+)", ln) or re.match(r"^(\S+)\s*=\s*([^;]+);", ln) or \
            re.match(r"^(\S+)\s+equ\s+(\S+)", ln, re.I)
        if m:
            v = parse_int(m.group(2).strip())
            if v is not None:
                out[m.group(1)] = v
    return out


def parse_int(s):
    s = s.strip()
    neg = s.startswith("-")
    if neg:
        s = s[1:]
    try:
        if s.lower().startswith("0x"):
            v = int(s[2:], 16)
        elif s.startswith("$"):
            v = int(s[1:], 16)
        elif s[-1:] in "hH" and s[:1].isdigit():
            v = int(s[:-1], 16)
        else:
            v = int(s, 10)
    except ValueError:
        return None
    return -v if neg else v
