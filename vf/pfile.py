"""Independent reader / writer of the AS code-file format, written from doc/file-formats.md.

Record model: dict(kind='data', cpu, seg, gran, addr, data(bytes), form='long'|'short')
              dict(kind='entry', addr)
              dict(kind='creator', text)
"""
import struct

MAGIC = b"\x89\x14"

# granularity implied by a short ($01..$7f) record: "implicitly given by the processor type".
# Table from the manual's description of the families' smallest addressable unit in CODE.
GRAN4 = {0x09, 0x76, 0x7d}
GRAN2 = {0x36, 0x70, 0x71, 0x72, 0x74, 0x75, 0x77, 0x12, 0x6d, 0x3b, 0x1a, 0x1b, 0x1c, 0x1d}


def implied_gran(cpu, seg=1):
    if cpu in GRAN4:
        return 4
    if cpu in GRAN2:
        if cpu in (0x3b, 0x1a, 0x1b, 0x1c, 0x1d) and seg != 1:
            return 1
        return 2
    return 1


SEGNAMES = {0: "NOTHING", 1: "CODE", 2: "DATA", 3: "IDATA", 4: "XDATA", 5: "YDATA", 6: "BITDATA",
            7: "IO", 8: "REG", 9: "ROMDATA", 10: "EEDATA"}     # 10: not in doc/file-formats.md, named so by plist


class FormatError(Exception):
    pass


def data(cpu, addr, payload, seg=1, gran=None, form="long"):
    if gran is None:
        gran = implied_gran(cpu, seg)
    return dict(kind="data", cpu=cpu, seg=seg, gran=gran, addr=addr, data=bytes(payload), form=form)


def entry(addr):
    return dict(kind="entry", addr=addr)


def creator(text="AS 1.42/x86_64-unknown-linux"):
    return dict(kind="creator", text=text)


def build(records, with_creator=True):
    """serialise; a creator record is appended unless the list already ends with one"""
    out = bytearray(MAGIC)
    recs = list(records)
    if with_creator and not (recs and recs[-1]["kind"] == "creator"):
        recs.append(creator())
    for r in recs:
        k = r["kind"]
        if k == "data":
            if r.get("form", "long") == "short":
                assert r["seg"] == 1 and 1 <= r["cpu"] <= 0x7f
                out.append(r["cpu"])
            else:
                out += bytes([0x81, r["cpu"], r["seg"], r["gran"]])
            out += struct.pack("<IH", r["addr"] & 0xffffffff, len(r["data"]))
            out += r["data"]
        elif k == "entry":
            out.append(0x80)
            out += struct.pack("<I", r["addr"] & 0xffffffff)
        elif k == "creator":
            out.append(0x00)
            out += r["text"].encode("latin-1")
        elif k == "raw":
            out += r["bytes"]
    return bytes(out)


def parse(buf, strict=True):
    """parse a code file; raises FormatError on anything the documented format forbids.
    strict additionally enforces the well-formedness rules used for assembler output."""
    if len(buf) < 2 or buf[:2] != MAGIC:
        raise FormatError("bad magic")
    pos = 2
    recs = []
    n = len(buf)
    seen_creator = False
    while pos < n:
        h = buf[pos]
        pos += 1
        if h == 0x00:
            recs.append(dict(kind="creator", text=buf[pos:].decode("latin-1")))
            pos = n
            seen_creator = True
            break
        if h == 0x80:
            if pos + 4 > n:
                raise FormatError("truncated entry record")
            recs.append(dict(kind="entry", addr=struct.unpack_from("<I", buf, pos)[0]))
            pos += 4
            continue
        if 1 <= h <= 0x7f:
            cpu, seg, gran, form = h, 1, implied_gran(h, 1), "short"
        elif h == 0x81:
            if pos + 3 > n:
                raise FormatError("truncated long header")
            cpu, seg, gran = buf[pos], buf[pos + 1], buf[pos + 2]
            pos += 3
            form = "long"
        else:
            raise FormatError("undocumented header byte $%02x at %d" % (h, pos - 1))
        if pos + 6 > n:
            raise FormatError("truncated record header")
        addr, ln = struct.unpack_from("<IH", buf, pos)
        pos += 6
        if pos + ln > n:
            raise FormatError("record data beyond end of file")
        recs.append(dict(kind="data", cpu=cpu, seg=seg, gran=gran, addr=addr,
                         data=bytes(buf[pos:pos + ln]), form=form))
        pos += ln
    if strict:
        if not seen_creator:
            raise FormatError("no terminating creator record")
        ents = [i for i, r in enumerate(recs) if r["kind"] == "entry"]
        if len(ents) > 1:
            raise FormatError("more than one entry record")
        if ents and ents[0] != len(recs) - 2:
            raise FormatError("entry record is not the last record before the creator")
        for r in recs:
            if r["kind"] != "data":
                continue
            if not (0 <= r["seg"] <= 10):
                raise FormatError("segment %d out of range" % r["seg"])
            if r["gran"] not in (1, 2, 4, 8):
                raise FormatError("granularity %d" % r["gran"])
            if len(r["data"]) % r["gran"]:
                raise FormatError("length %d not a multiple of granularity %d" % (len(r["data"]), r["gran"]))
    return recs


def datarecs(recs):
    return [r for r in recs if r["kind"] == "data"]


def bytemap(recs, seg=None, multiset=False):
    """{(seg, byte address): byte}; byte address = addr*gran + k.
    With multiset=True returns a list of ((seg, byteaddr), byte)."""
    m = [] if multiset else {}
    dup = []
    for r in datarecs(recs):
        if seg is not None and r["seg"] != seg:
            continue
        base = r["addr"] * r["gran"]
        for k, b in enumerate(r["data"]):
            key = (r["seg"], base + k)
            if multiset:
                m.append((key, b))
            else:
                if key in m:
                    dup.append(key)
                m[key] = b
    if multiset:
        return m
    return m, dup
