"""Build the libFuzzer targets: cmake flavour "fuzz" (objects with -fsanitize=fuzzer-no-link,address,
exit/fopen/fclose/main redirected through fuzz/shim.h) + one harness executable per tool."""
import os, re, subprocess, sys, fcntl
from . import build

FUZZ = os.path.join(build.ROOT, "fuzz")
TARGETS = {
    # tool: (input file name, has output argument, options before the input)
    "p2bin": ("in.p", True, False), "p2hex": ("in.p", True, False), "pbind": ("in.p", True, False),
    "plist": ("in.p", False, False), "alink": ("in.p", True, False),
    "dasl": ("in.bin", False, True),
    # asl's main() is not re-entrant (one-time initialisation behind `static Boolean First`, instruction tables
    # freed by UnsetCPU): its target (fuzz/harness_asl.c) assembles every input in a forked child and shares the
    # coverage counters with it, so no state can leak from one input to the next.
    "asl": ("t.asm", False, True),
}


def fdir():
    return build.bdir("fuzz")


def exe(tool):
    return os.path.join(fdir(), "fuzz_" + tool)


def build_all(quiet=True):
    d = fdir()
    os.makedirs(d, exist_ok=True)
    lock = open(os.path.join(build.BUILD, ".lock-fuzz"), "w")
    fcntl.flock(lock, fcntl.LOCK_EX)
    try:
        stub = os.path.join(d, "stubmain.o")
        subprocess.check_call(["clang", "-c", "-O1", "-g", os.path.join(FUZZ, "stubmain.c"), "-o", stub])
        env = dict(os.environ, ASAN_OPTIONS="detect_leaks=0")
        env.pop("ASCMD", None)
        if not os.path.exists(os.path.join(d, "build.ninja")):
            cflags = ("-DASL_VERIF -w -O1 -g -fno-omit-frame-pointer -fsanitize=fuzzer-no-link,address "
                      "-include %s" % os.path.join(FUZZ, "shim.h"))
            r = subprocess.run(["cmake", "-G", "Ninja", "-S", build.REPO, "-B", d, "-DCMAKE_C_COMPILER=clang",
                                "-DCMAKE_BUILD_TYPE=Release", "-DFORCE_COLORED_OUTPUT=FALSE",
                                "-DCMAKE_C_FLAGS=" + cflags,
                                "-DCMAKE_EXE_LINKER_FLAGS=-fsanitize=address " + stub],
                               stdout=subprocess.PIPE, stderr=subprocess.STDOUT, env=env, stdin=subprocess.DEVNULL)
            if r.returncode:
                sys.stderr.write(r.stdout.decode(errors="replace")[-3000:])
                raise SystemExit("BUILD-ERROR: cmake configure failed for fuzz")
        r = subprocess.run(["cmake", "--build", d, "-j", "16"], stdout=subprocess.PIPE, stderr=subprocess.STDOUT,
                           env=env, stdin=subprocess.DEVNULL)
        if r.returncode:
            sys.stderr.write(r.stdout.decode(errors="replace")[-5000:])
            raise SystemExit("BUILD-ERROR: fuzz flavour build failed")
        for tool, (inp, has_out, before) in TARGETS.items():
            cmds = subprocess.run(["ninja", "-C", d, "-t", "commands", tool], stdout=subprocess.PIPE,
                                  stdin=subprocess.DEVNULL).stdout.decode().strip().split("\n")
            link = [c for c in cmds if re.search(r"-o %s(\s|$)" % tool, c)][-1]
            link = link.replace(": && ", "").replace(" && :", "")
            hobj = os.path.join(d, "harness_%s.o" % tool)
            defs = ['-DVF_TOOL="%s"' % tool, '-DVF_INPUT="%s"' % inp, '-DVF_FUZZDIR="%s"' % FUZZ]
            if has_out:
                defs.append("-DVF_OUTPUT")
            if before:
                defs.append("-DVF_ARGS_BEFORE")
            src = "harness.c"
            if tool == "asl":
                src = "harness_asl.c"
                defs.append('-DVF_INCDIR="%s"' % os.path.join(build.REPO, "include"))
            subprocess.check_call(["clang", "-c", "-O1", "-g", "-fsanitize=address"] + defs +
                                  [os.path.join(FUZZ, src), "-o", hobj])
            link = link.replace(stub, hobj + " -fsanitize=fuzzer")
            link = re.sub(r"-o %s(\s|$)" % tool, "-o fuzz_%s " % tool, link)
            r = subprocess.run(link, shell=True, cwd=d, stdout=subprocess.PIPE, stderr=subprocess.STDOUT)
            if r.returncode:
                sys.stderr.write(r.stdout.decode(errors="replace")[-3000:])
                raise SystemExit("BUILD-ERROR: link of fuzz_%s failed" % tool)
        if not quiet:
            print("fuzz targets built in", d)
    finally:
        fcntl.flock(lock, fcntl.LOCK_UN)
        lock.close()


if __name__ == "__main__":
    build_all(quiet=False)
